// The TryFrom impls carry their own `ensures`; the vstd trait-level spec is switched off for them.
impl TryFromSpecImpl<UncheckedNonce> for Nonce {
    open spec fn obeys_try_from_spec() -> bool { false }
    open spec fn try_from_spec(v: UncheckedNonce) -> Result<Self, String> { arbitrary() }
}
impl TryFromSpecImpl<UncheckedRevocationPair> for RevocationPair {
    open spec fn obeys_try_from_spec() -> bool { false }
    open spec fn try_from_spec(v: UncheckedRevocationPair) -> Result<Self, Error> { arbitrary() }
}
impl TryFromSpecImpl<UncheckedRevocationSecret> for RevocationPair {
    open spec fn obeys_try_from_spec() -> bool { false }
    open spec fn try_from_spec(v: UncheckedRevocationSecret) -> Result<Self, Error> { arbitrary() }
}
