/// concatenation of the transcript items of a sequence of values
pub open spec fn flat_items<T: ChallengeInput>(s: Seq<T>) -> Seq<Seq<u8>>
    decreases s.len()
{
    if s.len() == 0 { Seq::<Seq<u8>>::empty() } else { flat_items(s.drop_last()) + s.last().items() }
}

pub proof fn lemma_flat_items_step<T: ChallengeInput>(s: Seq<T>, i: int)
    requires 0 <= i < s.len(),
    ensures flat_items(s.take(i + 1)) == flat_items(s.take(i)) + s[i].items(),
{
    assert(s.take(i + 1).drop_last() =~= s.take(i));
    assert(s.take(i + 1).last() == s[i]);
}

pub proof fn lemma_flat_items_full<T: ChallengeInput>(s: Seq<T>)
    ensures s.take(s.len() as int) == s, flat_items(s.take(0)) == Seq::<Seq<u8>>::empty(),
{
    assert(s.take(s.len() as int) =~= s);
}

pub proof fn lemma_flat_items_pointwise<T: ChallengeInput, U: ChallengeInput>(a: Seq<T>, b: Seq<U>)
    requires a.len() == b.len(), forall|i: int| 0 <= i < a.len() ==> a[i].items() == b[i].items(),
    ensures flat_items(a) == flat_items(b),
    decreases a.len(),
{
    if a.len() > 0 {
        lemma_flat_items_pointwise(a.drop_last(), b.drop_last());
    }
}
