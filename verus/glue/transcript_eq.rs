// C12/C10: a finished range constraint contributes the same transcript items as its builder (spec-only).
pub proof fn lemma_range_same_transcript(p: RangeConstraint, b: RangeConstraintBuilder, c: Scalar)
    requires rc_response_ok(p, b, c),
    ensures p.items() == b.items(),   // @ob builder-equals-proof.range [C12 C10]
{
    assert forall|j: int| 0 <= j < 9 implies (*p.digit_proofs)@[j].items() == (*b.digit_proof_builders)@[j].items() by {
        let x = (*p.digit_proofs)@[j];
    }
    lemma_flat_items_pointwise((*p.digit_proofs)@, (*b.digit_proof_builders)@);
}
