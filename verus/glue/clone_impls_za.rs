// ASSUMED: #[derive(Clone)] on these zkAbacus types yields a value equal to the original.
impl Clone for CloseStateSignature {
    #[verifier::external_body] fn clone(&self) -> (r: Self) ensures r == *self { unimplemented!() }
}
impl Clone for PayToken {
    #[verifier::external_body] fn clone(&self) -> (r: Self) ensures r == *self { unimplemented!() }
}
impl Clone for CloseState {
    #[verifier::external_body] fn clone(&self) -> (r: Self) ensures r == *self { unimplemented!() }
}
