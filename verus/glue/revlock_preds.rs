/// SHA3-256(secret bytes ++ [index])
pub open spec fn rev_digest(secret: Scalar, index: u8) -> Seq<u8> {
    sha3_256(flatten(Seq::<Seq<u8>>::empty().push(s_bytes(secret)).push(seq![index])))
}
/// type invariant of RevocationPair: the lock is the canonical scalar whose encoding is the hash of (secret, index)
pub open spec fn rev_pair_ok(p: RevocationPair) -> bool {
    s_bytes(p.lock.0) == rev_digest(p.secret.secret, p.secret.index)
}
