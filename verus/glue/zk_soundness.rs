// Lemmas over the zkAbacus relations (spec-only; mention the extracted structs).

pub proof fn lemma_contains_left<T>(a: Seq<T>, b: Seq<T>, x: T)
    requires a.contains(x),
    ensures (a + b).contains(x),
{
    let i = choose|i: int| 0 <= i < a.len() && a[i] == x;
    assert((a + b)[i] == x);
}
pub proof fn lemma_contains_right<T>(a: Seq<T>, b: Seq<T>, x: T)
    requires b.contains(x),
    ensures (a + b).contains(x),
{
    let i = choose|i: int| 0 <= i < b.len() && b[i] == x;
    assert((a + b)[a.len() + i] == x);
}
pub proof fn lemma_contains_single<T>(x: T)
    ensures seq![x].contains(x),
{
    assert(seq![x][0] == x);
}
pub proof fn lemma_contains_push<T>(a: Seq<T>, x: T)
    ensures a.push(x).contains(x),
{
    assert(a.push(x)[a.len() as int] == x);
}
pub proof fn lemma_contains_push_old<T>(a: Seq<T>, y: T, x: T)
    requires a.contains(x),
    ensures a.push(y).contains(x),
{
    let i = choose|i: int| 0 <= i < a.len() && a[i] == x;
    assert(a.push(y)[i] == x);
}

/// c != 0 and c·a == c·b  ==>  a == b
pub proof fn lemma_s_mul_cancel(c: Scalar, a: Scalar, b: Scalar)
    requires c != s_zero(), s_mul(c, a) == s_mul(c, b),
    ensures a == b,
{
    // c·(a − b) == 0
    lemma_s_distrib_sub(c, a, b);
    lemma_s_sub_self(s_mul(c, b));
    lemma_s_no_zero_divisors(c, s_sub(a, b));
    lemma_s_sub_zero(a, b);
}

/// resp(c, v, s) == resp(c, v2, s) with c != 0  ==>  v == v2
pub proof fn lemma_resp_injective(c: Scalar, v: Scalar, v2: Scalar, s: Scalar)
    requires c != s_zero(), resp(c, v, s) == resp(c, v2, s),
    ensures v == v2,
{
    ax_s_add_comm(s_mul(c, v), s);
    ax_s_add_comm(s_mul(c, v2), s);
    lemma_s_cancel_left(s, s_mul(c, v), s_mul(c, v2));
    lemma_s_mul_cancel(c, v, v2);
}

/// C12: every field of an establish proof that is not a response scalar, every public value and the context
/// is a chunk of the transcript the merchant hashes.
pub proof fn lemma_establish_transcript_coverage(p: EstablishProof, pk: PublicKey<5>, cid: Scalar, bc: Scalar, bm: Scalar, ctx: Seq<u8>)
    ensures
        ({
            let t = est_transcript(p, pk, cid, bc, bm, ctx);
            &&& t.contains(s_bytes(cid)) && t.contains(s_bytes(CLOSE_SCALAR)) && t.contains(s_bytes(bc)) && t.contains(s_bytes(bm)) && t.contains(ctx)
            &&& t.contains(g_bytes(p.state_proof.commitment_proof.commitment.0)) && t.contains(g_bytes(p.state_proof.commitment_proof.scalar_commitment.0))
            &&& t.contains(g_bytes(p.close_state_proof.commitment_proof.commitment.0)) && t.contains(g_bytes(p.close_state_proof.commitment_proof.scalar_commitment.0))
            &&& t.contains(s_bytes(p.channel_id_commitment_scalar)) && t.contains(s_bytes(p.close_tag_commitment_scalar))
            &&& t.contains(s_bytes(p.customer_balance_commitment_scalar)) && t.contains(s_bytes(p.merchant_balance_commitment_scalar))
            &&& t.contains(g_bytes(pk.g1)) && t.contains(g_bytes(pk.g2)) && t.contains(g_bytes(pk.x2))
        }),   // @ob establish-transcript-covers-every-non-response-field [C12 C01 C06]
{
    let e = Seq::<Seq<u8>>::empty();
    let t0 = e + pk.items();
    let t1 = t0 + seq![s_bytes(cid)];
    let t2 = t1 + seq![s_bytes(CLOSE_SCALAR)];
    let t3 = t2 + seq![s_bytes(bc)];
    let t4 = t3 + seq![s_bytes(bm)];
    let t5 = t4 + p.state_proof.items();
    let t6 = t5 + p.close_state_proof.items();
    let t7 = t6 + seq![s_bytes(p.channel_id_commitment_scalar)];
    let t8 = t7 + seq![s_bytes(p.close_tag_commitment_scalar)];
    let t9 = t8 + seq![s_bytes(p.customer_balance_commitment_scalar)];
    let t10 = t9 + seq![s_bytes(p.merchant_balance_commitment_scalar)];
    let t = t10.push(ctx);
    assert(t == est_transcript(p, pk, cid, bc, bm, ctx));
    // key elements
    let k0 = seq![g_bytes(pk.g1)];
    let k1 = k0 + seq![g_bytes(pk.g2)];
    let k2 = k1 + seq![g_bytes(pk.x2)];
    let k3 = k2 + flat_items((*pk.y1s)@);
    assert(pk.items() == k3 + flat_items((*pk.y2s)@));
    lemma_contains_single(g_bytes(pk.g1)); lemma_contains_single(g_bytes(pk.g2)); lemma_contains_single(g_bytes(pk.x2));
    lemma_contains_left(k0, seq![g_bytes(pk.g2)], g_bytes(pk.g1)); lemma_contains_right(k0, seq![g_bytes(pk.g2)], g_bytes(pk.g2));
    lemma_contains_left(k1, seq![g_bytes(pk.x2)], g_bytes(pk.g1)); lemma_contains_left(k1, seq![g_bytes(pk.x2)], g_bytes(pk.g2)); lemma_contains_right(k1, seq![g_bytes(pk.x2)], g_bytes(pk.x2));
    lemma_contains_left(k2, flat_items((*pk.y1s)@), g_bytes(pk.g1)); lemma_contains_left(k2, flat_items((*pk.y1s)@), g_bytes(pk.g2)); lemma_contains_left(k2, flat_items((*pk.y1s)@), g_bytes(pk.x2));
    lemma_contains_left(k3, flat_items((*pk.y2s)@), g_bytes(pk.g1)); lemma_contains_left(k3, flat_items((*pk.y2s)@), g_bytes(pk.g2)); lemma_contains_left(k3, flat_items((*pk.y2s)@), g_bytes(pk.x2));
    lemma_contains_right(e, pk.items(), g_bytes(pk.g1)); lemma_contains_right(e, pk.items(), g_bytes(pk.g2)); lemma_contains_right(e, pk.items(), g_bytes(pk.x2));
    // sub-proof elements
    let sp = p.state_proof.items();
    let cp = p.close_state_proof.items();
    let a1 = g_bytes(p.state_proof.commitment_proof.commitment.0); let a2 = g_bytes(p.state_proof.commitment_proof.scalar_commitment.0);
    let b1 = g_bytes(p.close_state_proof.commitment_proof.commitment.0); let b2 = g_bytes(p.close_state_proof.commitment_proof.scalar_commitment.0);
    lemma_contains_single(a1); lemma_contains_single(a2); lemma_contains_single(b1); lemma_contains_single(b2);
    lemma_contains_left(seq![a1], seq![a2], a1); lemma_contains_right(seq![a1], seq![a2], a2);
    lemma_contains_left(seq![b1], seq![b2], b1); lemma_contains_right(seq![b1], seq![b2], b2);
    // single chunks
    lemma_contains_single(s_bytes(cid)); lemma_contains_single(s_bytes(CLOSE_SCALAR)); lemma_contains_single(s_bytes(bc)); lemma_contains_single(s_bytes(bm));
    lemma_contains_single(s_bytes(p.channel_id_commitment_scalar)); lemma_contains_single(s_bytes(p.close_tag_commitment_scalar));
    lemma_contains_single(s_bytes(p.customer_balance_commitment_scalar)); lemma_contains_single(s_bytes(p.merchant_balance_commitment_scalar));
    // walk every atom up the chain t0 .. t
    lemma_chain13(t0, seq![s_bytes(cid)], seq![s_bytes(CLOSE_SCALAR)], seq![s_bytes(bc)], seq![s_bytes(bm)], sp, cp,
        seq![s_bytes(p.channel_id_commitment_scalar)], seq![s_bytes(p.close_tag_commitment_scalar)],
        seq![s_bytes(p.customer_balance_commitment_scalar)], seq![s_bytes(p.merchant_balance_commitment_scalar)], ctx);
}

/// membership is preserved along a chain of concatenations: every element of any part is in the whole
pub proof fn lemma_chain13<T>(p0: Seq<T>, p1: Seq<T>, p2: Seq<T>, p3: Seq<T>, p4: Seq<T>, p5: Seq<T>, p6: Seq<T>, p7: Seq<T>, p8: Seq<T>, p9: Seq<T>, p10: Seq<T>, last: T)
    ensures
        ({
            let t = (p0 + p1 + p2 + p3 + p4 + p5 + p6 + p7 + p8 + p9 + p10).push(last);
            &&& t.contains(last)
            &&& forall|x: T| (p0.contains(x) || p1.contains(x) || p2.contains(x) || p3.contains(x) || p4.contains(x) || p5.contains(x)
                    || p6.contains(x) || p7.contains(x) || p8.contains(x) || p9.contains(x) || p10.contains(x)) ==> #[trigger] t.contains(x)
        }),
{
    let t = (p0 + p1 + p2 + p3 + p4 + p5 + p6 + p7 + p8 + p9 + p10).push(last);
    lemma_contains_push(p0 + p1 + p2 + p3 + p4 + p5 + p6 + p7 + p8 + p9 + p10, last);
    assert forall|x: T| (p0.contains(x) || p1.contains(x) || p2.contains(x) || p3.contains(x) || p4.contains(x) || p5.contains(x)
                    || p6.contains(x) || p7.contains(x) || p8.contains(x) || p9.contains(x) || p10.contains(x)) implies #[trigger] t.contains(x) by {
        let s1 = p0 + p1; let s2 = s1 + p2; let s3 = s2 + p3; let s4 = s3 + p4; let s5 = s4 + p5; let s6 = s5 + p6; let s7 = s6 + p7; let s8 = s7 + p8; let s9 = s8 + p9; let s10 = s9 + p10;
        if p0.contains(x) { lemma_contains_left(p0, p1, x); }
        if p1.contains(x) { lemma_contains_right(p0, p1, x); }
        if s1.contains(x) { lemma_contains_left(s1, p2, x); }
        if p2.contains(x) { lemma_contains_right(s1, p2, x); }
        if s2.contains(x) { lemma_contains_left(s2, p3, x); }
        if p3.contains(x) { lemma_contains_right(s2, p3, x); }
        if s3.contains(x) { lemma_contains_left(s3, p4, x); }
        if p4.contains(x) { lemma_contains_right(s3, p4, x); }
        if s4.contains(x) { lemma_contains_left(s4, p5, x); }
        if p5.contains(x) { lemma_contains_right(s4, p5, x); }
        if s5.contains(x) { lemma_contains_left(s5, p6, x); }
        if p6.contains(x) { lemma_contains_right(s5, p6, x); }
        if s6.contains(x) { lemma_contains_left(s6, p7, x); }
        if p7.contains(x) { lemma_contains_right(s6, p7, x); }
        if s7.contains(x) { lemma_contains_left(s7, p8, x); }
        if p8.contains(x) { lemma_contains_right(s7, p8, x); }
        if s8.contains(x) { lemma_contains_left(s8, p9, x); }
        if p9.contains(x) { lemma_contains_right(s8, p9, x); }
        if s9.contains(x) { lemma_contains_left(s9, p10, x); }
        if p10.contains(x) { lemma_contains_right(s9, p10, x); }
        lemma_contains_push_old(s10, last, x);
    }
}

/// C01, special soundness of the establish relation: two accepting transcripts that share every non-response
/// field (hence the revealed commitment scalars - which is why they must be under the hash) and differ in the
/// challenge yield openings of the two commitments whose slots are exactly the agreed values, with one shared
/// revocation lock and the close tag in the close state.
pub proof fn lemma_establish_special_soundness(p: EstablishProof, p2: EstablishProof, pk: PublicKey<5>, cid: Scalar, bc: Scalar, bm: Scalar, c: Scalar, c2: Scalar)
    requires
        est_accept(p, pk, cid, bc, bm, c), est_accept(p2, pk, cid, bc, bm, c2), c != c2,
        // same first message
        p.state_proof.commitment_proof.commitment == p2.state_proof.commitment_proof.commitment,
        p.state_proof.commitment_proof.scalar_commitment == p2.state_proof.commitment_proof.scalar_commitment,
        p.close_state_proof.commitment_proof.commitment == p2.close_state_proof.commitment_proof.commitment,
        p.close_state_proof.commitment_proof.scalar_commitment == p2.close_state_proof.commitment_proof.scalar_commitment,
        p.channel_id_commitment_scalar == p2.channel_id_commitment_scalar, p.close_tag_commitment_scalar == p2.close_tag_commitment_scalar,
        p.customer_balance_commitment_scalar == p2.customer_balance_commitment_scalar, p.merchant_balance_commitment_scalar == p2.merchant_balance_commitment_scalar,
        (*pk.y1s)@.len() == 5, srp_z(p.state_proof).len() == 5, srp_z(p2.state_proof).len() == 5, srp_z(p.close_state_proof).len() == 5, srp_z(p2.close_state_proof).len() == 5,
    ensures
        ({
            let ws = extract(srp_z(p.state_proof), srp_z(p2.state_proof), c, c2);
            let wc = extract(srp_z(p.close_state_proof), srp_z(p2.close_state_proof), c, c2);
            let rs = extract1(p.state_proof.commitment_proof.blinding_factor_response_scalar, p2.state_proof.commitment_proof.blinding_factor_response_scalar, c, c2);
            let rc = extract1(p.close_state_proof.commitment_proof.blinding_factor_response_scalar, p2.close_state_proof.commitment_proof.blinding_factor_response_scalar, c, c2);
            &&& p.state_proof.commitment_proof.commitment.0 == com(pk.g1, (*pk.y1s)@, ws, rs)
            &&& p.close_state_proof.commitment_proof.commitment.0 == com(pk.g1, (*pk.y1s)@, wc, rc)
            &&& ws[0] == cid && wc[0] == cid
            &&& wc[1] == CLOSE_SCALAR
            &&& ws[2] == wc[2]
            &&& ws[3] == bc && wc[3] == bc
            &&& ws[4] == bm && wc[4] == bm
        }),   // @ob establish-special-soundness [C01]
{
    let zs = srp_z(p.state_proof); let zs2 = srp_z(p2.state_proof);
    let zc = srp_z(p.close_state_proof); let zc2 = srp_z(p2.close_state_proof);
    lemma_schnorr_special_soundness(pk.g1, (*pk.y1s)@, p.state_proof.commitment_proof.commitment.0, p.state_proof.commitment_proof.scalar_commitment.0,
        p.state_proof.commitment_proof.blinding_factor_response_scalar, zs, c, p2.state_proof.commitment_proof.blinding_factor_response_scalar, zs2, c2);
    lemma_schnorr_special_soundness(pk.g1, (*pk.y1s)@, p.close_state_proof.commitment_proof.commitment.0, p.close_state_proof.commitment_proof.scalar_commitment.0,
        p.close_state_proof.commitment_proof.blinding_factor_response_scalar, zc, c, p2.close_state_proof.commitment_proof.blinding_factor_response_scalar, zc2, c2);
    let ws = extract(zs, zs2, c, c2);
    let wc = extract(zc, zc2, c, c2);
    assert forall|i: int| 0 <= i < 5 implies #[trigger] ws[i] == extract1(zs[i], zs2[i], c, c2) && #[trigger] wc[i] == extract1(zc[i], zc2[i], c, c2) by {}
    lemma_extract_public_slot(zs[0], zs2[0], c, c2, cid, p.channel_id_commitment_scalar);
    lemma_extract_public_slot(zc[0], zc2[0], c, c2, cid, p.channel_id_commitment_scalar);
    lemma_extract_public_slot(zc[1], zc2[1], c, c2, CLOSE_SCALAR, p.close_tag_commitment_scalar);
    lemma_extract_equal_slots(zs[2], zs2[2], zc[2], zc2[2], c, c2);
    lemma_extract_public_slot(zs[3], zs2[3], c, c2, bc, p.customer_balance_commitment_scalar);
    lemma_extract_public_slot(zc[3], zc2[3], c, c2, bc, p.customer_balance_commitment_scalar);
    lemma_extract_public_slot(zs[4], zs2[4], c, c2, bm, p.merchant_balance_commitment_scalar);
    lemma_extract_public_slot(zc[4], zc2[4], c, c2, bm, p.merchant_balance_commitment_scalar);
}

/// C06: with the challenge unchanged, an establish proof accepted for one tuple of public values is accepted for
/// no other tuple (challenge != 0): each public value is pinned by its response-scalar equation.
pub proof fn lemma_establish_public_values_pinned(p: EstablishProof, pk: PublicKey<5>, cid: Scalar, bc: Scalar, bm: Scalar, cid2: Scalar, bc2: Scalar, bm2: Scalar, c: Scalar)
    requires est_accept(p, pk, cid, bc, bm, c), est_accept(p, pk, cid2, bc2, bm2, c), c != s_zero(),
    ensures cid == cid2 && bc == bc2 && bm == bm2,   // @ob establish-public-values-pinned-by-the-equations [C06 C01]
{
    lemma_resp_injective(c, cid, cid2, p.channel_id_commitment_scalar);
    lemma_resp_injective(c, bc, bc2, p.customer_balance_commitment_scalar);
    lemma_resp_injective(c, bm, bm2, p.merchant_balance_commitment_scalar);
}

/// C06/C02: with the challenge unchanged, a pay proof accepted for one (nonce, amount) is accepted for no other.
pub proof fn lemma_pay_public_values_pinned(p: PayProof, pk: PublicKey<5>, revp: PedersenParameters<G1Projective, 1>, rp: RangeConstraintParameters, nonce: Scalar, amt: Scalar, nonce2: Scalar, amt2: Scalar, c: Scalar)
    requires pay_accept(p, pk, revp, rp, nonce, amt, c), pay_accept(p, pk, revp, rp, nonce2, amt2, c), c != s_zero(),
    ensures nonce == nonce2 && amt == amt2,   // @ob pay-public-values-pinned-by-the-equations [C06 C02]
{
    lemma_resp_injective(c, nonce, nonce2, p.old_nonce_commitment_scalar);
    // zs[4] == zo[4] + c·amt == zo[4] + c·amt2
    let zo = (*p.old_pay_token_proof.commitment_proof.message_response_scalars)@;
    lemma_s_cancel_left(zo[4], s_mul(c, amt), s_mul(c, amt2));
    lemma_s_mul_cancel(c, amt, amt2);
}

/// response scalars of the commitment proof inside a signature proof
pub open spec fn sp_z<const N: usize>(p: SignatureProof<N>) -> Seq<Scalar> { (*p.commitment_proof.message_response_scalars)@ }

/// C02, special soundness of the pay relation (algebraic part): two accepting transcripts that share every
/// non-response field and the public values, and differ in the challenge, yield
///  - an opening wo of the commitment inside the pay-token proof, and the shown blinded signature unblinds to a VALID
///    signature of the merchant on wo (so wo is a state the merchant signed - unforgeability is the assumed step);
///  - openings ws, wc of the new state / close-state commitments and wr of the revocation-lock commitment,
/// with exactly the links the property demands: same channel id everywhere, the old nonce is the revealed one, the committed
/// lock is the old state's lock, the close state carries the close tag and the new state's lock, and the new balances
/// are the old ones moved by the public amount.
pub proof fn lemma_pay_special_soundness(p: PayProof, p2: PayProof, pk: PublicKey<5>, revp: PedersenParameters<G1Projective, 1>, rp: RangeConstraintParameters,
                                         nonce: Scalar, amt: Scalar, c: Scalar, c2: Scalar)
    requires
        pay_accept(p, pk, revp, rp, nonce, amt, c), pay_accept(p2, pk, revp, rp, nonce, amt, c2), c != c2,
        // same first message
        p.old_pay_token_proof.blinded_signature == p2.old_pay_token_proof.blinded_signature,
        p.old_pay_token_proof.commitment_proof.commitment == p2.old_pay_token_proof.commitment_proof.commitment,
        p.old_pay_token_proof.commitment_proof.scalar_commitment == p2.old_pay_token_proof.commitment_proof.scalar_commitment,
        p.old_revocation_lock_proof.commitment == p2.old_revocation_lock_proof.commitment,
        p.old_revocation_lock_proof.scalar_commitment == p2.old_revocation_lock_proof.scalar_commitment,
        p.state_proof.commitment_proof.commitment == p2.state_proof.commitment_proof.commitment,
        p.state_proof.commitment_proof.scalar_commitment == p2.state_proof.commitment_proof.scalar_commitment,
        p.close_state_proof.commitment_proof.commitment == p2.close_state_proof.commitment_proof.commitment,
        p.close_state_proof.commitment_proof.scalar_commitment == p2.close_state_proof.commitment_proof.scalar_commitment,
        p.old_nonce_commitment_scalar == p2.old_nonce_commitment_scalar, p.close_tag_commitment_scalar == p2.close_tag_commitment_scalar,
        (*pk.y1s)@.len() == 5, (*pk.y2s)@.len() == 5, (*revp.gs)@.len() == 1,
        srp_z(p.state_proof).len() == 5, srp_z(p2.state_proof).len() == 5, srp_z(p.close_state_proof).len() == 5, srp_z(p2.close_state_proof).len() == 5,
        sp_z(p.old_pay_token_proof).len() == 5, sp_z(p2.old_pay_token_proof).len() == 5,
        (*p.old_revocation_lock_proof.message_response_scalars)@.len() == 1, (*p2.old_revocation_lock_proof.message_response_scalars)@.len() == 1,
    ensures
        ({
            let ws = extract(srp_z(p.state_proof), srp_z(p2.state_proof), c, c2);
            let wc = extract(srp_z(p.close_state_proof), srp_z(p2.close_state_proof), c, c2);
            let wo = extract(sp_z(p.old_pay_token_proof), sp_z(p2.old_pay_token_proof), c, c2);
            let wr = extract((*p.old_revocation_lock_proof.message_response_scalars)@, (*p2.old_revocation_lock_proof.message_response_scalars)@, c, c2);
            let rs = extract1(p.state_proof.commitment_proof.blinding_factor_response_scalar, p2.state_proof.commitment_proof.blinding_factor_response_scalar, c, c2);
            let rc = extract1(p.close_state_proof.commitment_proof.blinding_factor_response_scalar, p2.close_state_proof.commitment_proof.blinding_factor_response_scalar, c, c2);
            let ro = extract1(p.old_pay_token_proof.commitment_proof.blinding_factor_response_scalar, p2.old_pay_token_proof.commitment_proof.blinding_factor_response_scalar, c, c2);
            let rr = extract1(p.old_revocation_lock_proof.blinding_factor_response_scalar, p2.old_revocation_lock_proof.blinding_factor_response_scalar, c, c2);
            let sig = p.old_pay_token_proof.blinded_signature.0;
            // openings
            &&& p.state_proof.commitment_proof.commitment.0 == com(pk.g1, (*pk.y1s)@, ws, rs)
            &&& p.close_state_proof.commitment_proof.commitment.0 == com(pk.g1, (*pk.y1s)@, wc, rc)
            &&& p.old_revocation_lock_proof.commitment.0 == com(revp.h, (*revp.gs)@, wr, rr)
            // the customer holds a valid merchant signature on the old state wo
            &&& ps_valid(pk.g2, pk.x2, (*pk.y2s)@, wo, sig.sigma1, g_sub(sig.sigma2, g_mul(sig.sigma1, ro)))
            // links
            &&& ws[0] == wo[0] && wc[0] == wo[0]
            &&& wo[1] == nonce
            &&& wr[0] == wo[2]
            &&& wc[1] == CLOSE_SCALAR
            &&& wc[2] == ws[2]
            &&& ws[3] == s_sub(wo[3], amt) && wc[3] == ws[3]
            &&& ws[4] == s_add(wo[4], amt) && wc[4] == ws[4]
        }),   // @ob pay-special-soundness [C02]
{
    let zs = srp_z(p.state_proof); let zs2 = srp_z(p2.state_proof);
    let zc = srp_z(p.close_state_proof); let zc2 = srp_z(p2.close_state_proof);
    let zo = sp_z(p.old_pay_token_proof); let zo2 = sp_z(p2.old_pay_token_proof);
    let zr = (*p.old_revocation_lock_proof.message_response_scalars)@; let zr2 = (*p2.old_revocation_lock_proof.message_response_scalars)@;
    let tp = p.old_pay_token_proof.commitment_proof; let tp2 = p2.old_pay_token_proof.commitment_proof;
    lemma_schnorr_special_soundness(pk.g1, (*pk.y1s)@, p.state_proof.commitment_proof.commitment.0, p.state_proof.commitment_proof.scalar_commitment.0,
        p.state_proof.commitment_proof.blinding_factor_response_scalar, zs, c, p2.state_proof.commitment_proof.blinding_factor_response_scalar, zs2, c2);
    lemma_schnorr_special_soundness(pk.g1, (*pk.y1s)@, p.close_state_proof.commitment_proof.commitment.0, p.close_state_proof.commitment_proof.scalar_commitment.0,
        p.close_state_proof.commitment_proof.blinding_factor_response_scalar, zc, c, p2.close_state_proof.commitment_proof.blinding_factor_response_scalar, zc2, c2);
    lemma_schnorr_special_soundness(revp.h, (*revp.gs)@, p.old_revocation_lock_proof.commitment.0, p.old_revocation_lock_proof.scalar_commitment.0,
        p.old_revocation_lock_proof.blinding_factor_response_scalar, zr, c, p2.old_revocation_lock_proof.blinding_factor_response_scalar, zr2, c2);
    lemma_schnorr_special_soundness(pk.g2, (*pk.y2s)@, tp.commitment.0, tp.scalar_commitment.0,
        tp.blinding_factor_response_scalar, zo, c, tp2.blinding_factor_response_scalar, zo2, c2);
    let ws = extract(zs, zs2, c, c2);
    let wc = extract(zc, zc2, c, c2);
    let wo = extract(zo, zo2, c, c2);
    let wr = extract(zr, zr2, c, c2);
    let ro = extract1(tp.blinding_factor_response_scalar, tp2.blinding_factor_response_scalar, c, c2);
    assert forall|i: int| 0 <= i < 5 implies #[trigger] ws[i] == extract1(zs[i], zs2[i], c, c2) && #[trigger] wc[i] == extract1(zc[i], zc2[i], c, c2)
        && #[trigger] wo[i] == extract1(zo[i], zo2[i], c, c2) by {}
    assert(wr[0] == extract1(zr[0], zr2[0], c, c2));
    // the shown signature unblinds to a valid signature on the extracted old state
    lemma_ps_unblind_link(pk.g2, pk.x2, (*pk.y2s)@, wo, p.old_pay_token_proof.blinded_signature.0.sigma1, p.old_pay_token_proof.blinded_signature.0.sigma2, ro);
    // links
    lemma_extract_equal_slots(zs[0], zs2[0], zo[0], zo2[0], c, c2);
    lemma_extract_equal_slots(zc[0], zc2[0], zo[0], zo2[0], c, c2);
    lemma_extract_public_slot(zo[1], zo2[1], c, c2, nonce, p.old_nonce_commitment_scalar);
    lemma_extract_equal_slots(zr[0], zr2[0], zo[2], zo2[2], c, c2);
    lemma_extract_public_slot(zc[1], zc2[1], c, c2, CLOSE_SCALAR, p.close_tag_commitment_scalar);
    lemma_extract_equal_slots(zc[2], zc2[2], zs[2], zs2[2], c, c2);
    lemma_extract_shifted_slot_sub(zs[3], zs2[3], zo[3], zo2[3], c, c2, amt);
    lemma_extract_equal_slots(zc[3], zc2[3], zs[3], zs2[3], c, c2);
    lemma_extract_shifted_slot(zs[4], zs2[4], zo[4], zo2[4], c, c2, amt);
    lemma_extract_equal_slots(zc[4], zc2[4], zs[4], zs2[4], c, c2);
}

/// C13 / C02, special soundness of one range constraint (algebraic part): two accepting transcripts with the same first
/// message and different challenges yield nine digits wd_j such that (a) the value the constraint is linked to extracts to
/// Σ 128^j·wd_j, and (b) for every j the shown blinded signature unblinds to a VALID signature under the range key on wd_j.
/// Hence the linked value lies in [0, 2^63) provided only the digits 0..127 carry signatures under that key - which is what
/// `validate()` + unforgeability give (the unforgeability step is the cryptographic hypothesis, not mechanised).
pub proof fn lemma_range_special_soundness(rc: RangeConstraint, rc2: RangeConstraint, rp: RangeConstraintParameters, c: Scalar, c2: Scalar, e: Scalar, e2: Scalar)
    requires
        rc_accept(rc, rp, c, e), rc_accept(rc2, rp, c2, e2), c != c2,
        (*rp.public_key.y2s)@.len() == 1,
        forall|j: int| 0 <= j < 9 ==> {
            let p = #[trigger] (*rc.digit_proofs)@[j];
            let p2 = (*rc2.digit_proofs)@[j];
            &&& p.blinded_signature == p2.blinded_signature
            &&& p.commitment_proof.commitment == p2.commitment_proof.commitment
            &&& p.commitment_proof.scalar_commitment == p2.commitment_proof.scalar_commitment
            &&& sp_z(p).len() == 1 && sp_z(p2).len() == 1
        },
    ensures
        ({
            let wd = extract(rc_zs(rc), rc_zs(rc2), c, c2);
            &&& wsum(s_int(128), wd, 9) == extract1(e, e2, c, c2)
            &&& forall|j: int| 0 <= j < 9 ==> {
                    let p = #[trigger] (*rc.digit_proofs)@[j];
                    let p2 = (*rc2.digit_proofs)@[j];
                    let ro = extract1(p.commitment_proof.blinding_factor_response_scalar, p2.commitment_proof.blinding_factor_response_scalar, c, c2);
                    ps_valid(rp.public_key.g2, rp.public_key.x2, (*rp.public_key.y2s)@, seq![wd[j]],
                        p.blinded_signature.0.sigma1, g_sub(p.blinded_signature.0.sigma2, g_mul(p.blinded_signature.0.sigma1, ro)))
                }
        }),   // @ob range-special-soundness [C13 C02]
{
    let wd = extract(rc_zs(rc), rc_zs(rc2), c, c2);
    lemma_wsum_extract(s_int(128), rc_zs(rc), rc_zs(rc2), c, c2, 9);
    assert forall|j: int| 0 <= j < 9 implies {
            let p = #[trigger] (*rc.digit_proofs)@[j];
            let p2 = (*rc2.digit_proofs)@[j];
            let ro = extract1(p.commitment_proof.blinding_factor_response_scalar, p2.commitment_proof.blinding_factor_response_scalar, c, c2);
            ps_valid(rp.public_key.g2, rp.public_key.x2, (*rp.public_key.y2s)@, seq![wd[j]],
                p.blinded_signature.0.sigma1, g_sub(p.blinded_signature.0.sigma2, g_mul(p.blinded_signature.0.sigma1, ro)))
        } by {
        let p = (*rc.digit_proofs)@[j];
        let p2 = (*rc2.digit_proofs)@[j];
        let pk = rp.public_key;
        assert(sp_accept(p, pk, c) && sp_accept(p2, pk, c2));
        lemma_schnorr_special_soundness(pk.g2, (*pk.y2s)@, p.commitment_proof.commitment.0, p.commitment_proof.scalar_commitment.0,
            p.commitment_proof.blinding_factor_response_scalar, sp_z(p), c, p2.commitment_proof.blinding_factor_response_scalar, sp_z(p2), c2);
        let w = extract(sp_z(p), sp_z(p2), c, c2);
        assert(rc_zs(rc)[j] == sp_z(p)[0] && rc_zs(rc2)[j] == sp_z(p2)[0]);
        assert(w =~= seq![wd[j]]);
        let ro = extract1(p.commitment_proof.blinding_factor_response_scalar, p2.commitment_proof.blinding_factor_response_scalar, c, c2);
        lemma_ps_unblind_link(pk.g2, pk.x2, (*pk.y2s)@, w, p.blinded_signature.0.sigma1, p.blinded_signature.0.sigma2, ro);
    }
}
