/// response scalars of a signature-request proof
pub open spec fn srp_z<const N: usize>(p: SignatureRequestProof<N>) -> Seq<Scalar> { (*p.commitment_proof.message_response_scalars)@ }
/// Schnorr acceptance of a signature-request proof under the key's G1 parameters
pub open spec fn srp_accept<const N: usize>(p: SignatureRequestProof<N>, pk: PublicKey<N>, c: Scalar) -> bool {
    schnorr_accept(pk.g1, (*pk.y1s)@, p.commitment_proof.commitment.0, p.commitment_proof.scalar_commitment.0,
        p.commitment_proof.blinding_factor_response_scalar, (*p.commitment_proof.message_response_scalars)@, c)
}

/// The establish relation, conjunct by conjunct as the property states it.
pub open spec fn est_accept(p: EstablishProof, pk: PublicKey<5>, cid: Scalar, bc: Scalar, bm: Scalar, c: Scalar) -> bool {
    let zs = srp_z(p.state_proof);
    let zc = srp_z(p.close_state_proof);
    &&& srp_accept(p.state_proof, pk, c)
    &&& srp_accept(p.close_state_proof, pk, c)
    &&& zs[0] == resp(c, cid, p.channel_id_commitment_scalar) && zc[0] == resp(c, cid, p.channel_id_commitment_scalar)
    &&& zc[1] == resp(c, CLOSE_SCALAR, p.close_tag_commitment_scalar)
    &&& zs[2] == zc[2]
    &&& zs[3] == resp(c, bc, p.customer_balance_commitment_scalar) && zc[3] == resp(c, bc, p.customer_balance_commitment_scalar)
    &&& zs[4] == resp(c, bm, p.merchant_balance_commitment_scalar) && zc[4] == resp(c, bm, p.merchant_balance_commitment_scalar)
}

/// The Fiat-Shamir transcript of an establish proof (ordered chunk list, mirroring the challenge assembly).
pub open spec fn est_transcript(p: EstablishProof, pk: PublicKey<5>, cid: Scalar, bc: Scalar, bm: Scalar, ctx: Seq<u8>) -> Seq<Seq<u8>> {
    (Seq::<Seq<u8>>::empty() + pk.items() + seq![s_bytes(cid)] + seq![s_bytes(CLOSE_SCALAR)] + seq![s_bytes(bc)] + seq![s_bytes(bm)]
        + p.state_proof.items() + p.close_state_proof.items()
        // the revealed commitment scalars are first-message material: the property requires them under the hash
        + seq![s_bytes(p.channel_id_commitment_scalar)] + seq![s_bytes(p.close_tag_commitment_scalar)]
        + seq![s_bytes(p.customer_balance_commitment_scalar)] + seq![s_bytes(p.merchant_balance_commitment_scalar)]
    ).push(ctx)
}

/// The pay relation (15 conjuncts of the property).
pub open spec fn pay_accept(p: PayProof, pk: PublicKey<5>, revp: PedersenParameters<G1Projective, 1>, rp: RangeConstraintParameters, nonce: Scalar, amt: Scalar, c: Scalar) -> bool {
    let zs = srp_z(p.state_proof);
    let zc = srp_z(p.close_state_proof);
    let zo = (*p.old_pay_token_proof.commitment_proof.message_response_scalars)@;
    let zr = (*p.old_revocation_lock_proof.message_response_scalars)@;
    &&& sp_accept(p.old_pay_token_proof, pk, c)
    &&& schnorr_accept(revp.h, (*revp.gs)@,
            p.old_revocation_lock_proof.commitment.0, p.old_revocation_lock_proof.scalar_commitment.0,
            p.old_revocation_lock_proof.blinding_factor_response_scalar, zr, c)
    &&& srp_accept(p.state_proof, pk, c)
    &&& srp_accept(p.close_state_proof, pk, c)
    &&& rc_accept(p.customer_balance_proof, rp, c, zs[3])
    &&& rc_accept(p.merchant_balance_proof, rp, c, zs[4])
    &&& zs[0] == zc[0] && zc[0] == zo[0]
    &&& zc[1] == resp(c, CLOSE_SCALAR, p.close_tag_commitment_scalar)
    &&& zr[0] == zo[2]
    &&& zs[2] == zc[2]
    &&& zo[1] == resp(c, nonce, p.old_nonce_commitment_scalar)
    &&& zs[3] == zc[3]
    &&& zs[4] == zc[4]
    &&& zs[3] == s_sub(zo[3], s_mul(c, amt))
    &&& zs[4] == s_add(zo[4], s_mul(c, amt))
}

pub open spec fn pay_transcript(p: PayProof, pk: PublicKey<5>, rp: RangeConstraintParameters, nonce: Scalar, ctx: Seq<u8>) -> Seq<Seq<u8>> {
    (Seq::<Seq<u8>>::empty() + pk.items() + rp.items()
        + seq![s_bytes(nonce)] + seq![s_bytes(CLOSE_SCALAR)]
        + p.old_revocation_lock_proof.items() + p.state_proof.items() + p.close_state_proof.items()
        + p.old_pay_token_proof.items() + p.customer_balance_proof.items() + p.merchant_balance_proof.items()
        // the revealed commitment scalars are first-message material: the property requires them under the hash
        + seq![s_bytes(p.old_nonce_commitment_scalar)] + seq![s_bytes(p.close_tag_commitment_scalar)]
    ).push(ctx)
}
