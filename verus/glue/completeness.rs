// Completeness lemmas over the phase contracts of the extracted proof types (spec-only).

/// Completeness of one commitment proof in terms of the two phase contracts: a proof whose commit phase and
/// response phase are honest satisfies the verifier's equation under that challenge.  Broadcast so that it applies
/// to proofs that only exist inside a struct literal.
pub broadcast proof fn lemma_cp_complete<G: Group<Scalar = Scalar>, const N: usize>(p: CommitmentProof<G, N>, b: CommitmentProofBuilder<G, N>, c: Scalar, h: G, gs: Seq<G>, m: Seq<Scalar>)
    requires #[trigger] cp_response_ok(p, b, c), #[trigger] cpb_commit_core(b, h, gs, m), gs.len() == N, m.len() == N,
        (*b.message_commitment_scalars)@.len() == N, (*p.message_response_scalars)@.len() == N,
    ensures schnorr_accept(h, gs, p.commitment.0, p.scalar_commitment.0, p.blinding_factor_response_scalar, (*p.message_response_scalars)@, c),
{
    let cs = (*b.message_commitment_scalars)@;
    lemma_schnorr_complete(h, gs, m, b.message_blinding_factor.0, cs, b.blinding_factor_commitment_scalar, c);
    assert((*p.message_response_scalars)@ =~= resp_seq(c, m, cs));
}

/// Completeness of one signature proof in terms of the phase contracts.
pub proof fn lemma_sp_complete<const N: usize>(p: SignatureProof<N>, b: SignatureProofBuilder<N>, pk: PublicKey<N>, m: Seq<Scalar>, sig: Signature, r: Scalar, c: Scalar)
    requires
        cpb_commit_core(b.commitment_proof_builder, pk.g2, (*pk.y2s)@, m), cp_response_ok(p.commitment_proof, b.commitment_proof_builder, c),
        p.blinded_signature == b.blinded_signature, spb_blinded_from(b, sig, r),
        ps_valid(pk.g2, pk.x2, (*pk.y2s)@, m, sig.sigma1, sig.sigma2),
        p.blinded_signature.0.sigma1 != g_zero::<G1Projective>(),
        (*pk.y2s)@.len() == N, m.len() == N, (*b.commitment_proof_builder.message_commitment_scalars)@.len() == N, (*p.commitment_proof.message_response_scalars)@.len() == N,
    ensures sp_accept(p, pk, c),
{
    lemma_cp_complete(p.commitment_proof, b.commitment_proof_builder, c, pk.g2, (*pk.y2s)@, m);
    if r == s_zero() {
        lemma_g_mul_zero_scalar(sig.sigma1);
    }
    lemma_ps_blinded_link(pk.g2, pk.x2, (*pk.y2s)@, m, sig.sigma1, sig.sigma2, b.commitment_proof_builder.message_blinding_factor.0, r);
}

/// Completeness of a range constraint: an honest constraint on a value in [0, 2^63) verifies against the honest
/// response c·value + s of the linked slot, s being the constraint's cumulative commitment scalar.
pub proof fn lemma_range_complete(rc: RangeConstraint, b: RangeConstraintBuilder, params: RangeConstraintParameters, value: int, c: Scalar)
    requires
        rcb_ok(b, params, value), rc_response_ok(rc, b, c), range_params_ok(params), 0 <= value <= 0x7fff_ffff_ffff_ffff,
        (*params.public_key.y2s)@.len() == 1,
        forall|j: int| 0 <= j < 9 ==> (*(#[trigger] (*b.digit_proof_builders)@[j]).commitment_proof_builder.message_commitment_scalars)@.len() == 1
            && (*(*rc.digit_proofs)@[j].commitment_proof.message_response_scalars)@.len() == 1,
        forall|j: int| 0 <= j < 9 ==> (#[trigger] (*rc.digit_proofs)@[j]).blinded_signature.0.sigma1 != g_zero::<G1Projective>(),
    ensures rc_accept(rc, params, c, resp(c, s_int(value), b.commitment_scalar)),   // @ob honest-range-constraint-verifies [C10 C13 C04]
{
    lemma_decomposition(value);
    let ds = digits_of(value);
    assert forall|j: int| 0 <= j < 9 implies sp_accept(#[trigger] (*rc.digit_proofs)@[j], params.public_key, c) by {
        let d = range_digit(value, j);
        assert(d == ds[j]);
        let bj = (*b.digit_proof_builders)@[j];
        let pj = (*rc.digit_proofs)@[j];
        let sig = (*params.digit_signatures)@[d];
        let r = choose|r: Scalar| spb_blinded_from(bj, sig, r);
        assert(ps_valid(params.public_key.g2, params.public_key.x2, (*params.public_key.y2s)@, seq![s_int(d)], sig.sigma1, sig.sigma2));
        lemma_sp_complete(pj, bj, params.public_key, seq![s_int(d)], sig, r, c);
    }
    // the weighted sum of the digit responses is the response for the value
    let dsc = Seq::new(9, |j: int| s_int(ds[j]));
    let cs = rcb_cs(b);
    assert forall|j: int| 0 <= j < 9 implies #[trigger] rc_zs(rc)[j] == resp(c, dsc[j], cs[j]) by {
        let bj = (*b.digit_proof_builders)@[j];
        let pj = (*rc.digit_proofs)@[j];
        assert((*bj.commitment_proof_builder.msg.0)@ == seq![s_int(range_digit(value, j))]);
        assert((*pj.commitment_proof.message_response_scalars)@[0] == resp(c, (*bj.commitment_proof_builder.msg.0)@[0], (*bj.commitment_proof_builder.message_commitment_scalars)@[0]));
    }
    assert(rc_zs(rc) =~= Seq::new(9, |j: int| resp(c, dsc[j], cs[j])));
    lemma_wsum_linear(s_int(128), c, dsc, cs, 9);
    lemma_wsum_int(ds, 9);
    assert(dsc =~= Seq::new(ds.len(), |j: int| s_int(ds[j])));
}
