/// the response scalars of the nine digit proofs
pub open spec fn rc_zs(rc: RangeConstraint) -> Seq<Scalar> {
    Seq::new(9, |j: int| (*(*rc.digit_proofs)@[j].commitment_proof.message_response_scalars)@[0])
}
/// the commitment scalars of the nine digit proof builders
pub open spec fn rcb_cs(b: RangeConstraintBuilder) -> Seq<Scalar> {
    Seq::new(9, |j: int| (*(*b.digit_proof_builders)@[j].commitment_proof_builder.message_commitment_scalars)@[0])
}
/// acceptance of a range constraint: every digit proof accepted under the parameters' own key, and
/// Σ 128^j z_j equals the linked response scalar
pub open spec fn rc_accept(rc: RangeConstraint, params: RangeConstraintParameters, c: Scalar, expected: Scalar) -> bool {
    &&& forall|j: int| 0 <= j < 9 ==> sp_accept(#[trigger] (*rc.digit_proofs)@[j], params.public_key, c)
    &&& wsum(s_int(128), rc_zs(rc), 9) == expected
}

/// every digit signature i verifies on the digit i under the parameters' own key
pub open spec fn range_params_ok(p: RangeConstraintParameters) -> bool {
    forall|i: int| 0 <= i < 128 ==> ps_valid(p.public_key.g2, p.public_key.x2, (*p.public_key.y2s)@, seq![s_int(i)],
        #[trigger] (*p.digit_signatures)@[i].sigma1, (*p.digit_signatures)@[i].sigma2)
}

pub open spec fn range_digit(value: int, j: int) -> int { (value / pow128(j as nat)) % 128 }

/// commit phase of a range constraint on `value`: digit j is proved on the published signature for that digit,
/// and the cumulative commitment scalar is the weighted sum of the digit commitment scalars
pub open spec fn rcb_ok(b: RangeConstraintBuilder, params: RangeConstraintParameters, value: int) -> bool {
    &&& forall|j: int| 0 <= j < 9 ==> {
            let d = range_digit(value, j);
            &&& cpb_commit_core((#[trigger] (*b.digit_proof_builders)@[j]).commitment_proof_builder, params.public_key.g2, (*params.public_key.y2s)@, seq![s_int(d)])
            &&& exists|r: Scalar| spb_blinded_from((*b.digit_proof_builders)@[j], (*params.digit_signatures)@[d], r)
        }
    &&& b.commitment_scalar == wsum(s_int(128), rcb_cs(b), 9)
}

/// response phase of a range constraint
pub open spec fn rc_response_ok(rc: RangeConstraint, b: RangeConstraintBuilder, c: Scalar) -> bool {
    forall|j: int| 0 <= j < 9 ==> (#[trigger] (*rc.digit_proofs)@[j]).blinded_signature == (*b.digit_proof_builders)@[j].blinded_signature
        && cp_response_ok((*rc.digit_proofs)@[j].commitment_proof, (*b.digit_proof_builders)@[j].commitment_proof_builder, c)
}
