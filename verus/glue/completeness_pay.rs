// Completeness of the pay proof in terms of the phase contracts of its six sub-proof builders (spec-only).

/// everything PayProof::new does, as relations between the builders it creates and the proof it returns
pub open spec fn pay_built(p: PayProof, bt: SignatureProofBuilder<5>, br: CommitmentProofBuilder<G1Projective, 1>, bs: SignatureRequestProofBuilder<5>,
                           bc: SignatureRequestProofBuilder<5>, bcr: RangeConstraintBuilder, bmr: RangeConstraintBuilder,
                           pk: PublicKey<5>, revp: PedersenParameters<G1Projective, 1>, rp: RangeConstraintParameters,
                           old_m: Seq<Scalar>, new_m: Seq<Scalar>, close_m: Seq<Scalar>, lock: Scalar, token: Signature, r_token: Scalar,
                           cust: int, merch: int, c: Scalar) -> bool {
    let cs_r = (*br.message_commitment_scalars)@;
    let cs_t = (*bt.commitment_proof_builder.message_commitment_scalars)@;
    let cs_s = (*bs.commitment_proof_builder.message_commitment_scalars)@;
    // commit phases
    &&& cpb_commit_core(br, revp.h, (*revp.gs)@, seq![lock])
    &&& cpb_commit_core(bt.commitment_proof_builder, pk.g2, (*pk.y2s)@, old_m)
    &&& spb_blinded_from(bt, token, r_token)
    &&& cpb_commit_core(bs.commitment_proof_builder, pk.g1, (*pk.y1s)@, new_m)
    &&& cpb_commit_core(bc.commitment_proof_builder, pk.g1, (*pk.y1s)@, close_m)
    // linked commitment scalars
    &&& cs_t[2] == cs_r[0] && cs_t[3] == bcr.commitment_scalar && cs_t[4] == bmr.commitment_scalar
    &&& cs_s[0] == cs_t[0] && cs_s[3] == bcr.commitment_scalar && cs_s[4] == bmr.commitment_scalar
    &&& ({ let cs_c = (*bc.commitment_proof_builder.message_commitment_scalars)@; cs_c[0] == cs_s[0] && cs_c[2] == cs_s[2] && cs_c[3] == cs_s[3] && cs_c[4] == cs_s[4] })
    &&& rcb_ok(bcr, rp, cust) && rcb_ok(bmr, rp, merch)
    // response phases
    &&& p.old_pay_token_proof.blinded_signature == bt.blinded_signature
    &&& cp_response_ok(p.old_pay_token_proof.commitment_proof, bt.commitment_proof_builder, c)
    &&& cp_response_ok(p.old_revocation_lock_proof, br, c)
    &&& cp_response_ok(p.state_proof.commitment_proof, bs.commitment_proof_builder, c)
    &&& cp_response_ok(p.close_state_proof.commitment_proof, bc.commitment_proof_builder, c)
    &&& rc_response_ok(p.customer_balance_proof, bcr, c) && rc_response_ok(p.merchant_balance_proof, bmr, c)
    // revealed commitment scalars
    &&& p.old_nonce_commitment_scalar == cs_t[1]
    &&& p.close_tag_commitment_scalar == (*bc.commitment_proof_builder.message_commitment_scalars)@[1]
}

/// the blinded signatures an honest pay proof shows are well formed (true unless a re-randomiser was drawn as 0)
pub open spec fn pay_blinded_nonidentity(p: PayProof) -> bool {
    &&& p.old_pay_token_proof.blinded_signature.0.sigma1 != g_zero::<G1Projective>()
    &&& forall|j: int| 0 <= j < 9 ==> (#[trigger] (*p.customer_balance_proof.digit_proofs)@[j]).blinded_signature.0.sigma1 != g_zero::<G1Projective>()
    &&& forall|j: int| 0 <= j < 9 ==> (#[trigger] (*p.merchant_balance_proof.digit_proofs)@[j]).blinded_signature.0.sigma1 != g_zero::<G1Projective>()
}

pub open spec fn pay_lengths_ok(p: PayProof, bt: SignatureProofBuilder<5>, br: CommitmentProofBuilder<G1Projective, 1>, bs: SignatureRequestProofBuilder<5>,
                                bc: SignatureRequestProofBuilder<5>, bcr: RangeConstraintBuilder, bmr: RangeConstraintBuilder,
                                pk: PublicKey<5>, revp: PedersenParameters<G1Projective, 1>, rp: RangeConstraintParameters) -> bool {
    &&& (*pk.y1s)@.len() == 5 && (*pk.y2s)@.len() == 5 && (*revp.gs)@.len() == 1 && (*rp.public_key.y2s)@.len() == 1
    &&& (*br.message_commitment_scalars)@.len() == 1 && (*p.old_revocation_lock_proof.message_response_scalars)@.len() == 1
    &&& (*bt.commitment_proof_builder.message_commitment_scalars)@.len() == 5 && (*p.old_pay_token_proof.commitment_proof.message_response_scalars)@.len() == 5
    &&& (*bs.commitment_proof_builder.message_commitment_scalars)@.len() == 5 && (*p.state_proof.commitment_proof.message_response_scalars)@.len() == 5
    &&& (*bc.commitment_proof_builder.message_commitment_scalars)@.len() == 5 && (*p.close_state_proof.commitment_proof.message_response_scalars)@.len() == 5
    &&& forall|j: int| 0 <= j < 9 ==> (*(#[trigger] (*bcr.digit_proof_builders)@[j]).commitment_proof_builder.message_commitment_scalars)@.len() == 1
            && (*(*p.customer_balance_proof.digit_proofs)@[j].commitment_proof.message_response_scalars)@.len() == 1
    &&& forall|j: int| 0 <= j < 9 ==> (*(#[trigger] (*bmr.digit_proof_builders)@[j]).commitment_proof_builder.message_commitment_scalars)@.len() == 1
            && (*(*p.merchant_balance_proof.digit_proofs)@[j].commitment_proof.message_response_scalars)@.len() == 1
}

/// C04 / C10: an honestly built pay proof for a payment of `amt` satisfies the merchant's verifier relation.
pub proof fn lemma_pay_complete(p: PayProof, bt: SignatureProofBuilder<5>, br: CommitmentProofBuilder<G1Projective, 1>, bs: SignatureRequestProofBuilder<5>,
                                bc: SignatureRequestProofBuilder<5>, bcr: RangeConstraintBuilder, bmr: RangeConstraintBuilder,
                                pk: PublicKey<5>, revp: PedersenParameters<G1Projective, 1>, rp: RangeConstraintParameters,
                                old_m: Seq<Scalar>, new_m: Seq<Scalar>, close_m: Seq<Scalar>, lock: Scalar, token: Signature, r_token: Scalar,
                                cust: int, merch: int, amt: int, nonce: Scalar, c: Scalar)
    requires
        pay_built(p, bt, br, bs, bc, bcr, bmr, pk, revp, rp, old_m, new_m, close_m, lock, token, r_token, cust, merch, c),
        pay_lengths_ok(p, bt, br, bs, bc, bcr, bmr, pk, revp, rp),
        pay_blinded_nonidentity(p),
        range_params_ok(rp),
        ps_valid(pk.g2, pk.x2, (*pk.y2s)@, old_m, token.sigma1, token.sigma2),
        0 <= cust <= 0x7fff_ffff_ffff_ffff, 0 <= merch <= 0x7fff_ffff_ffff_ffff,
        old_m.len() == 5, new_m.len() == 5, close_m.len() == 5,
        old_m[0] == new_m[0], new_m[0] == close_m[0], close_m[1] == CLOSE_SCALAR, old_m[1] == nonce, old_m[2] == lock,
        new_m[2] == close_m[2], new_m[3] == s_int(cust), close_m[3] == s_int(cust), new_m[4] == s_int(merch), close_m[4] == s_int(merch),
        old_m[3] == s_int(cust + amt), old_m[4] == s_int(merch - amt),
    ensures pay_accept(p, pk, revp, rp, nonce, enc_amount(amt), c),   // @ob honest-pay-proof-satisfies-the-verifier-relation [C04 C10]
{
    let zs = srp_z(p.state_proof);
    let zc = srp_z(p.close_state_proof);
    let zo = (*p.old_pay_token_proof.commitment_proof.message_response_scalars)@;
    let zr = (*p.old_revocation_lock_proof.message_response_scalars)@;
    let cs_r = (*br.message_commitment_scalars)@;
    let cs_t = (*bt.commitment_proof_builder.message_commitment_scalars)@;
    let cs_s = (*bs.commitment_proof_builder.message_commitment_scalars)@;
    let cs_c = (*bc.commitment_proof_builder.message_commitment_scalars)@;
    // the four Schnorr proofs
    lemma_sp_complete(p.old_pay_token_proof, bt, pk, old_m, token, r_token, c);
    lemma_cp_complete(p.old_revocation_lock_proof, br, c, revp.h, (*revp.gs)@, seq![lock]);
    lemma_cp_complete(p.state_proof.commitment_proof, bs.commitment_proof_builder, c, pk.g1, (*pk.y1s)@, new_m);
    lemma_cp_complete(p.close_state_proof.commitment_proof, bc.commitment_proof_builder, c, pk.g1, (*pk.y1s)@, close_m);
    // response scalars
    assert(zs[0] == resp(c, new_m[0], cs_s[0]) && zs[2] == resp(c, new_m[2], cs_s[2]) && zs[3] == resp(c, new_m[3], cs_s[3]) && zs[4] == resp(c, new_m[4], cs_s[4]));
    assert(zc[0] == resp(c, close_m[0], cs_c[0]) && zc[1] == resp(c, close_m[1], cs_c[1]) && zc[2] == resp(c, close_m[2], cs_c[2]) && zc[3] == resp(c, close_m[3], cs_c[3]) && zc[4] == resp(c, close_m[4], cs_c[4]));
    assert(zo[0] == resp(c, old_m[0], cs_t[0]) && zo[1] == resp(c, old_m[1], cs_t[1]) && zo[2] == resp(c, old_m[2], cs_t[2]) && zo[3] == resp(c, old_m[3], cs_t[3]) && zo[4] == resp(c, old_m[4], cs_t[4]));
    assert(zr[0] == resp(c, seq![lock][0], cs_r[0]));
    // range constraints against the new balances
    lemma_range_complete(p.customer_balance_proof, bcr, rp, cust, c);
    lemma_range_complete(p.merchant_balance_proof, bmr, rp, merch, c);
    // balance update: old = new +/- amt under the same commitment scalar
    lemma_ledger_homomorphism(cust + amt, amt);
    lemma_ledger_homomorphism(merch - amt, amt);
    let e = enc_amount(amt);
    assert(s_int(cust) == s_sub(s_int(cust + amt), e));
    assert(s_int(merch) == s_add(s_int(merch - amt), e));
    lemma_pattern_public_subtraction(c, s_int(cust + amt), bcr.commitment_scalar, e);
    lemma_pattern_public_addition(c, s_int(merch - amt), bmr.commitment_scalar, e);
}
