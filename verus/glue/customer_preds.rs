/// the close state of a state (spec mirror of State::close_state's contract)
pub open spec fn cs_of(s: State) -> CloseState {
    CloseState { channel_id: s.channel_id, revocation_lock: s.revocation_pair.lock, merchant_balance: s.merchant_balance, customer_balance: s.customer_balance }
}
/// a closing message carries exactly the given close state and the held signature re-randomized with a scalar
/// drawn in this call
pub open spec fn closing_msg_ok(m: customer::ClosingMessage, held: CloseStateSignature, cs: CloseState, log0: Seq<Draw>, log1: Seq<Draw>) -> bool {
    &&& m.close_state == cs
    &&& log1.len() == log0.len() + 1 && log1.drop_last() == log0 && log1.last() is S
    &&& m.close_signature.0.sigma1 == g_mul(held.0.sigma1, log1.last()->S_0)
    &&& m.close_signature.0.sigma2 == g_mul(held.0.sigma2, log1.last()->S_0)
}
