// ASSUMED: #[derive(Clone)] on these parameter types yields a value equal to the original.
impl<const N: usize> Clone for PublicKey<N> {
    #[verifier::external_body] fn clone(&self) -> (r: Self) ensures r == *self { unimplemented!() }
}
impl<G: Group<Scalar = Scalar>, const N: usize> Clone for PedersenParameters<G, N> {
    #[verifier::external_body] fn clone(&self) -> (r: Self) ensures r == *self { unimplemented!() }
}
impl Clone for RangeConstraintParameters {
    #[verifier::external_body] fn clone(&self) -> (r: Self) ensures r == *self { unimplemented!() }
}
