// Contract vocabulary over the extracted proof structs (spec-only; mentions field names, so it is
// assembled after the struct declarations).

/// commit phase of a commitment proof: both commitments are the exact Pedersen map, caller-chosen
/// commitment scalars are used where given
pub open spec fn cpb_commit_ok<G, const N: usize>(b: CommitmentProofBuilder<G, N>, h: G, gs: Seq<G>, m: Seq<Scalar>, given: Seq<Option<Scalar>>) -> bool
    where G: Group<Scalar = Scalar>
{
    &&& cpb_commit_core(b, h, gs, m)
    &&& forall|i: int| 0 <= i < N ==> (given[i] is Some ==> #[trigger] (*b.message_commitment_scalars)@[i] == given[i]->Some_0)
}

/// the part of the commit phase that does not depend on caller-chosen commitment scalars
pub open spec fn cpb_commit_core<G, const N: usize>(b: CommitmentProofBuilder<G, N>, h: G, gs: Seq<G>, m: Seq<Scalar>) -> bool
    where G: Group<Scalar = Scalar>
{
    &&& (*b.msg.0)@ == m
    &&& b.commitment.0 == com(h, gs, m, b.message_blinding_factor.0)
    &&& b.scalar_commitment.0 == com(h, gs, (*b.message_commitment_scalars)@, b.blinding_factor_commitment_scalar)
}

/// response phase: first message copied, z_i = c·m_i + s_i, z_r = c·bf + s_r
pub open spec fn cp_response_ok<G, const N: usize>(p: CommitmentProof<G, N>, b: CommitmentProofBuilder<G, N>, c: Scalar) -> bool
    where G: Group<Scalar = Scalar>
{
    &&& p.commitment == b.commitment
    &&& p.scalar_commitment == b.scalar_commitment
    &&& p.blinding_factor_response_scalar == resp(c, b.message_blinding_factor.0, b.blinding_factor_commitment_scalar)
    &&& forall|i: int| 0 <= i < N ==> #[trigger] (*p.message_response_scalars)@[i] == resp(c, (*b.msg.0)@[i], (*b.message_commitment_scalars)@[i])
}

/// C14: the commitment scalar of every slot the caller left open (None) is a draw of its own, made during the call:
/// `idx[i]` is its position in the generator's draw log, positions of different open slots differ
pub open spec fn fresh_slots(cs: Seq<Scalar>, given: Seq<Option<Scalar>>, lo: Seq<Draw>, hi: Seq<Draw>, idx: Seq<int>) -> bool {
    &&& idx.len() == cs.len()
    &&& given.len() == cs.len()
    &&& forall|i: int| 0 <= i < cs.len() && given[i] is None ==> lo.len() <= #[trigger] idx[i] < hi.len() && hi[idx[i]] == Draw::S(cs[i])
    &&& forall|i: int, j: int| 0 <= i < j < cs.len() && given[i] is None && given[j] is None ==> #[trigger] idx[i] != #[trigger] idx[j]
}

pub open spec fn cpb_fresh<G, const N: usize>(b: CommitmentProofBuilder<G, N>, given: Seq<Option<Scalar>>, lo: Seq<Draw>, hi: Seq<Draw>) -> bool
    where G: Group<Scalar = Scalar>
{
    exists|idx: Seq<int>| #[trigger] fresh_slots((*b.message_commitment_scalars)@, given, lo, hi, idx)
}

/// freshness survives later draws (the log only grows) and an earlier starting point
pub proof fn lemma_fresh_widen(cs: Seq<Scalar>, given: Seq<Option<Scalar>>, lo: Seq<Draw>, hi: Seq<Draw>, idx: Seq<int>, lo2: Seq<Draw>, hi2: Seq<Draw>)
    requires fresh_slots(cs, given, lo, hi, idx), lo2.len() <= lo.len(), log_prefix(hi, hi2),
    ensures fresh_slots(cs, given, lo2, hi2, idx),
{
    assert forall|i: int| 0 <= i < cs.len() && given[i] is None implies lo2.len() <= #[trigger] idx[i] < hi2.len() && hi2[idx[i]] == Draw::S(cs[i]) by {
        assert(hi2.subrange(0, hi.len() as int)[idx[i]] == hi2[idx[i]]);
    }
}
