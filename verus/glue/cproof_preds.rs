// Contract vocabulary over the extracted proof structs (spec-only; mentions field names, so it is
// assembled after the struct declarations).

/// commit phase of a commitment proof: both commitments are the exact Pedersen map, caller-chosen
/// commitment scalars are used where given
pub open spec fn cpb_commit_ok<G, const N: usize>(b: CommitmentProofBuilder<G, N>, h: G, gs: Seq<G>, m: Seq<Scalar>, given: Seq<Option<Scalar>>) -> bool
    where G: Group<Scalar = Scalar>
{
    &&& cpb_commit_core(b, h, gs, m)
    &&& forall|i: int| 0 <= i < N ==> (given[i] is Some ==> #[trigger] (*b.message_commitment_scalars)@[i] == given[i]->Some_0)
}

/// the part of the commit phase that does not depend on caller-chosen commitment scalars
pub open spec fn cpb_commit_core<G, const N: usize>(b: CommitmentProofBuilder<G, N>, h: G, gs: Seq<G>, m: Seq<Scalar>) -> bool
    where G: Group<Scalar = Scalar>
{
    &&& (*b.msg.0)@ == m
    &&& b.commitment.0 == com(h, gs, m, b.message_blinding_factor.0)
    &&& b.scalar_commitment.0 == com(h, gs, (*b.message_commitment_scalars)@, b.blinding_factor_commitment_scalar)
}

/// response phase: first message copied, z_i = c·m_i + s_i, z_r = c·bf + s_r
pub open spec fn cp_response_ok<G, const N: usize>(p: CommitmentProof<G, N>, b: CommitmentProofBuilder<G, N>, c: Scalar) -> bool
    where G: Group<Scalar = Scalar>
{
    &&& p.commitment == b.commitment
    &&& p.scalar_commitment == b.scalar_commitment
    &&& p.blinding_factor_response_scalar == resp(c, b.message_blinding_factor.0, b.blinding_factor_commitment_scalar)
    &&& forall|i: int| 0 <= i < N ==> #[trigger] (*p.message_response_scalars)@[i] == resp(c, (*b.msg.0)@[i], (*b.message_commitment_scalars)@[i])
}
