/// ChannelId::to_scalar: Scalar::from_raw of the four little-endian words of the id bytes
pub uninterp spec fn cid_scalar(id: Seq<u8>) -> Scalar;

/// message signed for a state: (channel id, nonce, revocation lock, customer balance, merchant balance)
pub open spec fn state_msg(s: State) -> Seq<Scalar> {
    seq![cid_scalar(s.channel_id.0@), s.nonce.0, s.revocation_pair.lock.0,
         s_int(s.customer_balance.0.0 as int), s_int(s.merchant_balance.0.0 as int)]
}
/// message signed for a close state: (channel id, CLOSE, revocation lock, customer balance, merchant balance)
pub open spec fn close_state_msg(s: CloseState) -> Seq<Scalar> {
    seq![cid_scalar(s.channel_id.0@), CLOSE_SCALAR, s.revocation_lock.0,
         s_int(s.customer_balance.0.0 as int), s_int(s.merchant_balance.0.0 as int)]
}
