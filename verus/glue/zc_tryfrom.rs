// The TryFrom impls carry their own `ensures`; the vstd trait-level spec is switched off for them.
impl TryFromSpecImpl<UncheckedPedersenParameters<${G}, ${N}>> for PedersenParameters<${G}, ${N}> {
    open spec fn obeys_try_from_spec() -> bool { false }
    open spec fn try_from_spec(v: UncheckedPedersenParameters<${G}, ${N}>) -> Result<Self, String> { arbitrary() }
}
impl TryFromSpecImpl<UncheckedSecretKey<${N}>> for SecretKey<${N}> {
    open spec fn obeys_try_from_spec() -> bool { false }
    open spec fn try_from_spec(v: UncheckedSecretKey<${N}>) -> Result<Self, String> { arbitrary() }
}
impl TryFromSpecImpl<UncheckedPublicKey<${N}>> for PublicKey<${N}> {
    open spec fn obeys_try_from_spec() -> bool { false }
    open spec fn try_from_spec(v: UncheckedPublicKey<${N}>) -> Result<Self, String> { arbitrary() }
}
impl TryFromSpecImpl<UncheckedSignature> for Signature {
    open spec fn obeys_try_from_spec() -> bool { false }
    open spec fn try_from_spec(v: UncheckedSignature) -> Result<Self, String> { arbitrary() }
}
