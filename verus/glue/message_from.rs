impl FromSpecImpl<Scalar> for Message<1> {
    open spec fn obeys_from_spec() -> bool { true }
    open spec fn from_spec(s: Scalar) -> Message<1> { Message(Box::new([s])) }
}
