// byte string of a Pointcheval-Sanders public key, in the order PublicKey::to_bytes emits it
pub open spec fn gcat<G>(s: Seq<G>) -> Seq<u8>
    decreases s.len()
{
    if s.len() == 0 { Seq::<u8>::empty() } else { gcat(s.drop_last()) + g_bytes(s.last()) }
}

pub proof fn lemma_gcat_step<G>(s: Seq<G>, i: int)
    requires 0 <= i < s.len(),
    ensures gcat(s.take(i + 1)) == gcat(s.take(i)) + g_bytes(s[i]),
{
    assert(s.take(i + 1).drop_last() =~= s.take(i));
    assert(s.take(i + 1).last() == s[i]);
}

pub proof fn lemma_gcat_full<G>(s: Seq<G>)
    ensures s.take(s.len() as int) == s, gcat(s.take(0)) == Seq::<u8>::empty(),
{
    assert(s.take(s.len() as int) =~= s);
}

pub open spec fn pk_bytes<const N: usize>(pk: PublicKey<N>) -> Seq<u8> {
    g_bytes(pk.g1) + gcat((*pk.y1s)@) + g_bytes(pk.g2) + g_bytes(pk.x2) + gcat((*pk.y2s)@)
}
