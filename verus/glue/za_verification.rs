impl FromSpecImpl<bool> for Verification {
    open spec fn obeys_from_spec() -> bool { true }
    open spec fn from_spec(b: bool) -> Verification { if b { Verification::Verified } else { Verification::Failed } }
}
