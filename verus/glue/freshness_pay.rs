// C14 (structural part): which commitment scalars of an honest pay / establish proof are draws of their own.
// "Different draws" is a statement about positions in the generator's draw log, not about values (two draws of a
// constant generator are equal values); that the VALUES differ and are hidden is the probabilistic part, assumed.

/// the two published commitment scalars of a pay proof, and the commitment scalars behind the responses of the hidden
/// new nonce, new revocation lock, old revocation lock and channel id, are six different draws made during the call
pub open spec fn pay_hidden_fresh_w(p: PayProof, c: Scalar, cid: Scalar, new_nonce: Scalar, new_lock: Scalar, old_lock: Scalar,
                                    lo: Seq<Draw>, hi: Seq<Draw>, s: Seq<Scalar>, k: Seq<int>) -> bool {
    &&& s.len() == 6 && k.len() == 6
    &&& forall|i: int| 0 <= i < 6 ==> lo.len() <= #[trigger] k[i] < hi.len() && hi[k[i]] == Draw::S(s[i])
    &&& forall|i: int, j: int| 0 <= i < j < 6 ==> #[trigger] k[i] != #[trigger] k[j]
    &&& s[0] == p.old_nonce_commitment_scalar
    &&& s[1] == p.close_tag_commitment_scalar
    &&& (*p.state_proof.commitment_proof.message_response_scalars)@[1] == resp(c, new_nonce, s[2])
    &&& (*p.state_proof.commitment_proof.message_response_scalars)@[2] == resp(c, new_lock, s[3])
    &&& (*p.old_revocation_lock_proof.message_response_scalars)@[0] == resp(c, old_lock, s[4])
    &&& (*p.old_pay_token_proof.commitment_proof.message_response_scalars)@[0] == resp(c, cid, s[5])
}

pub open spec fn pay_hidden_fresh(p: PayProof, c: Scalar, cid: Scalar, new_nonce: Scalar, new_lock: Scalar, old_lock: Scalar, lo: Seq<Draw>, hi: Seq<Draw>) -> bool {
    exists|s: Seq<Scalar>, k: Seq<int>| #[trigger] pay_hidden_fresh_w(p, c, cid, new_nonce, new_lock, old_lock, lo, hi, s, k)
}

pub proof fn lemma_pay_hidden_fresh(p: PayProof, bt: SignatureProofBuilder<5>, br: CommitmentProofBuilder<G1Projective, 1>, bs: SignatureRequestProofBuilder<5>,
                                    bc: SignatureRequestProofBuilder<5>, c: Scalar, old_m: Seq<Scalar>, new_m: Seq<Scalar>, lock: Scalar,
                                    gr: Seq<Option<Scalar>>, gt: Seq<Option<Scalar>>, gs: Seq<Option<Scalar>>, gc: Seq<Option<Scalar>>,
                                    ir: Seq<int>, it: Seq<int>, is: Seq<int>, ic: Seq<int>,
                                    l0: Seq<Draw>, l4: Seq<Draw>, l5: Seq<Draw>, l7: Seq<Draw>, l9: Seq<Draw>, l11: Seq<Draw>)
    requires
        old_m.len() == 5, new_m.len() == 5,
        (*br.msg.0)@ == seq![lock], (*bt.commitment_proof_builder.msg.0)@ == old_m, (*bs.commitment_proof_builder.msg.0)@ == new_m,
        cp_response_ok(p.old_pay_token_proof.commitment_proof, bt.commitment_proof_builder, c),
        cp_response_ok(p.old_revocation_lock_proof, br, c),
        cp_response_ok(p.state_proof.commitment_proof, bs.commitment_proof_builder, c),
        p.old_nonce_commitment_scalar == (*bt.commitment_proof_builder.message_commitment_scalars)@[1],
        p.close_tag_commitment_scalar == (*bc.commitment_proof_builder.message_commitment_scalars)@[1],
        gr.len() == 1 && gr[0] is None,
        gt.len() == 5 && gt[0] is None && gt[1] is None,
        gs.len() == 5 && gs[1] is None && gs[2] is None,
        gc.len() == 5 && gc[1] is None,
        fresh_slots((*br.message_commitment_scalars)@, gr, l4, l5, ir),
        fresh_slots((*bt.commitment_proof_builder.message_commitment_scalars)@, gt, l5, l7, it),
        fresh_slots((*bs.commitment_proof_builder.message_commitment_scalars)@, gs, l7, l9, is),
        fresh_slots((*bc.commitment_proof_builder.message_commitment_scalars)@, gc, l9, l11, ic),
        l0.len() <= l4.len(), log_prefix(l5, l7), log_prefix(l7, l9), log_prefix(l9, l11),
    ensures
        pay_hidden_fresh(p, c, old_m[0], new_m[1], new_m[2], lock, l0, l11),
{
    let cs_r = (*br.message_commitment_scalars)@;
    let cs_t = (*bt.commitment_proof_builder.message_commitment_scalars)@;
    let cs_s = (*bs.commitment_proof_builder.message_commitment_scalars)@;
    let cs_c = (*bc.commitment_proof_builder.message_commitment_scalars)@;
    let s = seq![cs_t[1], cs_c[1], cs_s[1], cs_s[2], cs_r[0], cs_t[0]];
    let k = seq![it[1], ic[1], is[1], is[2], ir[0], it[0]];
    assert(l11.subrange(0, l9.len() as int)[is[1]] == l11[is[1]]);
    assert(l11.subrange(0, l9.len() as int)[is[2]] == l11[is[2]]);
    assert(l9.subrange(0, l7.len() as int)[it[0]] == l9[it[0]]);
    assert(l9.subrange(0, l7.len() as int)[it[1]] == l9[it[1]]);
    assert(l11.subrange(0, l9.len() as int)[it[0]] == l11[it[0]]);
    assert(l11.subrange(0, l9.len() as int)[it[1]] == l11[it[1]]);
    assert(l7.subrange(0, l5.len() as int)[ir[0]] == l7[ir[0]]);
    assert(l9.subrange(0, l7.len() as int)[ir[0]] == l9[ir[0]]);
    assert(l11.subrange(0, l9.len() as int)[ir[0]] == l11[ir[0]]);
    assert(pay_hidden_fresh_w(p, c, old_m[0], new_m[1], new_m[2], lock, l0, l11, s, k));
}

/// the four published commitment scalars of an establish proof, and the commitment scalars behind the responses of the
/// hidden nonce and revocation lock, are six different draws made during the call
pub open spec fn est_hidden_fresh_w(p: EstablishProof, c: Scalar, nonce: Scalar, lock: Scalar, lo: Seq<Draw>, hi: Seq<Draw>, s: Seq<Scalar>, k: Seq<int>) -> bool {
    &&& s.len() == 6 && k.len() == 6
    &&& forall|i: int| 0 <= i < 6 ==> lo.len() <= #[trigger] k[i] < hi.len() && hi[k[i]] == Draw::S(s[i])
    &&& forall|i: int, j: int| 0 <= i < j < 6 ==> #[trigger] k[i] != #[trigger] k[j]
    &&& s[0] == p.channel_id_commitment_scalar
    &&& s[1] == p.close_tag_commitment_scalar
    &&& s[2] == p.customer_balance_commitment_scalar
    &&& s[3] == p.merchant_balance_commitment_scalar
    &&& (*p.state_proof.commitment_proof.message_response_scalars)@[1] == resp(c, nonce, s[4])
    &&& (*p.state_proof.commitment_proof.message_response_scalars)@[2] == resp(c, lock, s[5])
}

pub open spec fn est_hidden_fresh(p: EstablishProof, c: Scalar, nonce: Scalar, lock: Scalar, lo: Seq<Draw>, hi: Seq<Draw>) -> bool {
    exists|s: Seq<Scalar>, k: Seq<int>| #[trigger] est_hidden_fresh_w(p, c, nonce, lock, lo, hi, s, k)
}

pub proof fn lemma_est_hidden_fresh(p: EstablishProof, bs: SignatureRequestProofBuilder<5>, bc: SignatureRequestProofBuilder<5>, c: Scalar, m: Seq<Scalar>,
                                    gs: Seq<Option<Scalar>>, gc: Seq<Option<Scalar>>, is: Seq<int>, ic: Seq<int>, l0: Seq<Draw>, l1: Seq<Draw>, l4: Seq<Draw>)
    requires
        m.len() == 5, (*bs.commitment_proof_builder.msg.0)@ == m,
        cp_response_ok(p.state_proof.commitment_proof, bs.commitment_proof_builder, c),
        p.channel_id_commitment_scalar == (*bs.commitment_proof_builder.message_commitment_scalars)@[0],
        p.close_tag_commitment_scalar == (*bc.commitment_proof_builder.message_commitment_scalars)@[1],
        p.customer_balance_commitment_scalar == (*bs.commitment_proof_builder.message_commitment_scalars)@[3],
        p.merchant_balance_commitment_scalar == (*bs.commitment_proof_builder.message_commitment_scalars)@[4],
        gs.len() == 5 && forall|i: int| 0 <= i < 5 ==> gs[i] is None,
        gc.len() == 5 && gc[1] is None,
        fresh_slots((*bs.commitment_proof_builder.message_commitment_scalars)@, gs, l0, l1, is),
        fresh_slots((*bc.commitment_proof_builder.message_commitment_scalars)@, gc, l1, l4, ic),
        log_prefix(l1, l4),
    ensures
        est_hidden_fresh(p, c, m[1], m[2], l0, l4),
{
    let cs_s = (*bs.commitment_proof_builder.message_commitment_scalars)@;
    let cs_c = (*bc.commitment_proof_builder.message_commitment_scalars)@;
    let s = seq![cs_s[0], cs_c[1], cs_s[3], cs_s[4], cs_s[1], cs_s[2]];
    let k = seq![is[0], ic[1], is[3], is[4], is[1], is[2]];
    assert forall|i: int| 0 <= i < 5 implies l4[#[trigger] is[i]] == l1[is[i]] by {
        assert(l4.subrange(0, l1.len() as int)[is[i]] == l4[is[i]]);
    }
    assert(est_hidden_fresh_w(p, c, m[1], m[2], l0, l4, s, k));
}
