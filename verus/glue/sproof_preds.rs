/// acceptance condition of a signature proof, in the form the property states it:
/// sigma1' != 1  AND  com_{g~,Y~}(z; z_r) == T + c·C  AND  e(sigma1', X~ + C) · e(sigma2', -g~) == 1
pub open spec fn sp_accept<const N: usize>(p: SignatureProof<N>, pk: PublicKey<N>, c: Scalar) -> bool {
    &&& p.blinded_signature.0.sigma1 != g_zero::<G1Projective>()
    &&& schnorr_accept(pk.g2, (*pk.y2s)@, p.commitment_proof.commitment.0, p.commitment_proof.scalar_commitment.0,
            p.commitment_proof.blinding_factor_response_scalar, (*p.commitment_proof.message_response_scalars)@, c)
    &&& ps_pairing_ok(p.blinded_signature.0.sigma1, p.blinded_signature.0.sigma2,
            g_add(pk.x2, p.commitment_proof.commitment.0), pk.g2)
}

/// the blinded signature of a signature-proof builder is `sig` blinded with the commitment's blinding factor and
/// re-randomised with r
pub open spec fn spb_blinded_from<const N: usize>(b: SignatureProofBuilder<N>, sig: Signature, r: Scalar) -> bool {
    &&& b.blinded_signature.0.sigma1 == g_mul(sig.sigma1, r)
    &&& b.blinded_signature.0.sigma2 == g_mul(g_add(sig.sigma2, g_mul(sig.sigma1, b.commitment_proof_builder.message_blinding_factor.0)), r)
}
