// ASSUMED contracts: subtle::CtOption, Scalar byte/word conversions, small std shims.

#[verifier::external_body]
#[verifier::reject_recursive_types(T)]
pub struct CtOption<T> { _p: core::marker::PhantomData<T> }
pub uninterp spec fn ct_val<T>(c: CtOption<T>) -> Option<T>;
impl<T> FromSpecImpl<CtOption<T>> for Option<T> {
    open spec fn obeys_from_spec() -> bool { true }
    open spec fn from_spec(c: CtOption<T>) -> Option<T> { ct_val(c) }
}
impl<T> From<CtOption<T>> for Option<T> { #[verifier::external_body] fn from(c: CtOption<T>) -> (r: Option<T>) { unimplemented!() } }

/// `b` is the canonical 32-byte encoding of some scalar
pub open spec fn s_canonical(b: Seq<u8>) -> bool { exists|s: Scalar| s_bytes(s) == b }
/// Scalar::from_raw: the little-endian value of the four words, reduced mod q
pub uninterp spec fn s_raw(w: Seq<u64>) -> Scalar;

pub broadcast axiom fn axiom_s_bytes_injective(a: Scalar, b: Scalar)
    requires #[trigger] s_bytes(a) == #[trigger] s_bytes(b),
    ensures a == b;
pub broadcast axiom fn axiom_s_bytes_len(a: Scalar)
    ensures #[trigger] s_bytes(a).len() == 32;
//@broadcast axiom_s_bytes_injective
//@broadcast axiom_s_bytes_len

impl Scalar {
    /// canonical encodings only
    #[verifier::external_body]
    pub fn from_bytes(bytes: &[u8; 32]) -> (r: CtOption<Scalar>)
        ensures
            ct_val(r) is Some <==> s_canonical(bytes@),
            ct_val(r) is Some ==> s_bytes(ct_val(r)->Some_0) == bytes@,
    { unimplemented!() }
    #[verifier::external_body]
    pub const fn from_raw(val: [u64; 4]) -> (r: Scalar) ensures r == s_raw(val@) { Scalar { _p: val } }
}

impl<T> CtOption<T> {
    #[verifier::external_body]
    pub fn map<U, F: FnOnce(T) -> U>(self, f: F) -> (r: CtOption<U>)
        requires forall|t: T| call_requires(f, (t,)),
        ensures
            ct_val(self) is None ==> ct_val(r) is None,
            ct_val(self) is Some ==> ct_val(r) is Some && call_ensures(f, (ct_val(self)->Some_0,), ct_val(r)->Some_0),
    { unimplemented!() }
}

pub assume_specification [i64::is_negative] (x: i64) -> (r: bool) ensures r == (x < 0);
pub assume_specification [i128::is_negative] (x: i128) -> (r: bool) ensures r == (x < 0);
pub assume_specification [i64::abs] (x: i64) -> (r: i64)
    requires x != i64::MIN,
    ensures r == (if x < 0 { -x } else { x as int });
pub assume_specification [i64::saturating_abs] (x: i64) -> (r: i64)
    ensures r == (if x == i64::MIN { i64::MAX as int } else if x < 0 { -(x as int) } else { x as int });
pub assume_specification [i64::wrapping_abs] (x: i64) -> (r: i64)
    ensures r == (if x == i64::MIN { i64::MIN as int } else if x < 0 { -(x as int) } else { x as int });
pub assume_specification [i64::checked_abs] (x: i64) -> (r: Option<i64>)
    ensures r == (if x == i64::MIN { None::<i64> } else if x < 0 { Some((-(x as int)) as i64) } else { Some(x) });
pub assume_specification [i64::unsigned_abs] (x: i64) -> (r: u64)
    ensures r as int == (if x < 0 { -(x as int) } else { x as int });

// lossless unsigned -> signed conversions of std (`T::from(x)`, `x.into()`) that vstd does not specify: the value is unchanged
pub assume_specification [<i16 as core::convert::From<u8>>::from] (x: u8) -> (r: i16) ensures r as int == x as int;
pub assume_specification [<i32 as core::convert::From<u8>>::from] (x: u8) -> (r: i32) ensures r as int == x as int;
pub assume_specification [<i64 as core::convert::From<u8>>::from] (x: u8) -> (r: i64) ensures r as int == x as int;
pub assume_specification [<i128 as core::convert::From<u8>>::from] (x: u8) -> (r: i128) ensures r as int == x as int;
pub assume_specification [<i32 as core::convert::From<u16>>::from] (x: u16) -> (r: i32) ensures r as int == x as int;
pub assume_specification [<i64 as core::convert::From<u16>>::from] (x: u16) -> (r: i64) ensures r as int == x as int;
pub assume_specification [<i128 as core::convert::From<u16>>::from] (x: u16) -> (r: i128) ensures r as int == x as int;
pub assume_specification [<i64 as core::convert::From<u32>>::from] (x: u32) -> (r: i64) ensures r as int == x as int;
pub assume_specification [<i128 as core::convert::From<u32>>::from] (x: u32) -> (r: i128) ensures r as int == x as int;
pub assume_specification [<i128 as core::convert::From<u64>>::from] (x: u64) -> (r: i128) ensures r as int == x as int;
