// ASSUMED contracts of the bls12_381 pairing API.

#[verifier::external_body]
pub struct Gt { _p: [u64; 72] }
impl Clone for Gt { #[verifier::external_body] fn clone(&self) -> (r: Self) ensures r == *self { unimplemented!() } }
impl Copy for Gt {}

/// e : G1 x G2 -> Gt
pub uninterp spec fn pair(a: G1Projective, b: G2Projective) -> Gt;
pub uninterp spec fn gt_mul(a: Gt, b: Gt) -> Gt;
pub uninterp spec fn gt_one() -> Gt;

/// Π e(a_i, b_i), left fold from 1
pub open spec fn pair_prod(s: Seq<(G1Projective, G2Projective)>) -> Gt
    decreases s.len()
{
    if s.len() == 0 { gt_one() } else { gt_mul(pair_prod(s.drop_last()), pair(s.last().0, s.last().1)) }
}

impl PartialEqSpecImpl for Gt {
    open spec fn obeys_eq_spec() -> bool { true }
    open spec fn eq_spec(&self, other: &Self) -> bool { *self == *other }
}
impl PartialEq for Gt { #[verifier::external_body] fn eq(&self, other: &Self) -> (r: bool) { unimplemented!() } }
impl Gt {
    #[verifier::external_body]
    pub fn identity() -> (r: Gt) ensures r == gt_one() { unimplemented!() }
}

/// G2Prepared: a G2 point prepared for the Miller loop; abstractly the same element.
#[verifier::external_body]
pub struct G2Prepared { _p: [u64; 8] }
pub uninterp spec fn prep_val(p: G2Prepared) -> G2Projective;
impl FromSpecImpl<G2Projective> for G2Prepared {
    open spec fn obeys_from_spec() -> bool { true }
    open spec fn from_spec(c: G2Projective) -> G2Prepared { prep_of(c) }
}
pub uninterp spec fn prep_of(c: G2Projective) -> G2Prepared;
pub broadcast axiom fn axiom_prep_val(c: G2Projective)
    ensures #[trigger] prep_val(prep_of(c)) == c;
impl From<G2Projective> for G2Prepared { #[verifier::external_body] fn from(c: G2Projective) -> (r: G2Prepared) { unimplemented!() } }

#[verifier::external_body]
pub struct MillerLoopResult { _p: [u64; 72] }
pub uninterp spec fn ml_val(m: MillerLoopResult) -> Gt;

pub open spec fn ml_terms(terms: Seq<(&G1Projective, &G2Prepared)>) -> Seq<(G1Projective, G2Projective)> {
    Seq::new(terms.len(), |i: int| (*terms[i].0, prep_val(*terms[i].1)))
}

/// e(a0,b0)·e(a1,b1)
pub open spec fn pair2(a0: G1Projective, b0: G2Projective, a1: G1Projective, b1: G2Projective) -> Gt {
    gt_mul(pair(a0, b0), pair(a1, b1))
}

#[verifier::external_body]
pub fn multi_miller_loop(terms: &[(&G1Projective, &G2Prepared)]) -> (r: MillerLoopResult)
    ensures
        ml_val(r) == pair_prod(ml_terms(terms@)),
        terms@.len() == 2 ==> ml_val(r) == pair2(*terms@[0].0, prep_val(*terms@[0].1), *terms@[1].0, prep_val(*terms@[1].1)),
{ unimplemented!() }

impl MillerLoopResult {
    #[verifier::external_body]
    pub fn final_exponentiation(&self) -> (r: Gt) ensures r == ml_val(*self) { unimplemented!() }
}
//@broadcast axiom_prep_val
