// ASSUMED algebra of BLS12-381 (trusted; audited natively by tools/axiom-audit): the scalar field, the
// prime-order groups G1/G2 as modules over it, the target group, and the bilinear non-degenerate pairing.
// None of these is broadcast: lemmas cite them explicitly, so no proof depends on an axiom silently.

// ---- scalar field -------------------------------------------------------------------------------
pub axiom fn ax_s_add_comm(a: Scalar, b: Scalar) ensures s_add(a, b) == s_add(b, a);
pub axiom fn ax_s_add_assoc(a: Scalar, b: Scalar, c: Scalar) ensures s_add(s_add(a, b), c) == s_add(a, s_add(b, c));
pub axiom fn ax_s_add_zero(a: Scalar) ensures s_add(a, s_zero()) == a;
pub axiom fn ax_s_add_neg(a: Scalar) ensures s_add(a, s_neg(a)) == s_zero();
pub axiom fn ax_s_mul_comm(a: Scalar, b: Scalar) ensures s_mul(a, b) == s_mul(b, a);
pub axiom fn ax_s_mul_assoc(a: Scalar, b: Scalar, c: Scalar) ensures s_mul(s_mul(a, b), c) == s_mul(a, s_mul(b, c));
pub axiom fn ax_s_mul_one(a: Scalar) ensures s_mul(a, s_one()) == a;
pub axiom fn ax_s_distrib(a: Scalar, b: Scalar, c: Scalar) ensures s_mul(a, s_add(b, c)) == s_add(s_mul(a, b), s_mul(a, c));
pub axiom fn ax_s_inv(a: Scalar) requires a != s_zero() ensures s_mul(a, s_inv(a)) == s_one();
pub axiom fn ax_s_one_ne_zero() ensures s_one() != s_zero();

// ---- ι : int -> Scalar is a ring homomorphism, injective on [0, 2^64) (q > 2^254) ------------------
pub axiom fn ax_s_int_add(a: int, b: int) ensures s_int(a + b) == s_add(s_int(a), s_int(b));
pub axiom fn ax_s_int_mul(a: int, b: int) ensures s_int(a * b) == s_mul(s_int(a), s_int(b));
pub axiom fn ax_s_int_zero() ensures s_int(0) == s_zero();
pub axiom fn ax_s_int_one() ensures s_int(1) == s_one();
pub axiom fn ax_s_int_injective_u64(a: int, b: int)
    requires 0 <= a < 0x1_0000_0000_0000_0000, 0 <= b < 0x1_0000_0000_0000_0000, s_int(a) == s_int(b),
    ensures a == b;

// ---- groups as modules over the scalar field (generic in the group type) ---------------------------
pub axiom fn ax_g_add_comm<G>(a: G, b: G) ensures g_add(a, b) == g_add(b, a);
pub axiom fn ax_g_add_assoc<G>(a: G, b: G, c: G) ensures g_add(g_add(a, b), c) == g_add(a, g_add(b, c));
pub axiom fn ax_g_add_zero<G>(a: G) ensures g_add(a, g_zero::<G>()) == a;
pub axiom fn ax_g_add_neg<G>(a: G) ensures g_add(a, g_neg(a)) == g_zero::<G>();
pub axiom fn ax_g_mul_add_scalar<G>(p: G, a: Scalar, b: Scalar) ensures g_mul(p, s_add(a, b)) == g_add(g_mul(p, a), g_mul(p, b));
pub axiom fn ax_g_mul_add_point<G>(p: G, q: G, a: Scalar) ensures g_mul(g_add(p, q), a) == g_add(g_mul(p, a), g_mul(q, a));
pub axiom fn ax_g_mul_mul<G>(p: G, a: Scalar, b: Scalar) ensures g_mul(g_mul(p, a), b) == g_mul(p, s_mul(a, b));
pub axiom fn ax_g_mul_one<G>(p: G) ensures g_mul(p, s_one()) == p;
/// prime order: s·P = 0  ==>  s = 0 or P = 0
pub axiom fn ax_g_prime_order<G>(p: G, s: Scalar) requires g_mul(p, s) == g_zero::<G>() ensures s == s_zero() || p == g_zero::<G>();

// ---- target group and pairing -----------------------------------------------------------------------
pub uninterp spec fn gt_inv(a: Gt) -> Gt;
pub axiom fn ax_gt_mul_comm(a: Gt, b: Gt) ensures gt_mul(a, b) == gt_mul(b, a);
pub axiom fn ax_gt_mul_assoc(a: Gt, b: Gt, c: Gt) ensures gt_mul(gt_mul(a, b), c) == gt_mul(a, gt_mul(b, c));
pub axiom fn ax_gt_mul_one(a: Gt) ensures gt_mul(a, gt_one()) == a;
pub axiom fn ax_gt_mul_inv(a: Gt) ensures gt_mul(a, gt_inv(a)) == gt_one();
pub axiom fn ax_pair_add_left(a: G1Projective, b: G1Projective, c: G2Projective) ensures pair(g_add(a, b), c) == gt_mul(pair(a, c), pair(b, c));
pub axiom fn ax_pair_add_right(a: G1Projective, b: G2Projective, c: G2Projective) ensures pair(a, g_add(b, c)) == gt_mul(pair(a, b), pair(a, c));
pub axiom fn ax_pair_scalar(a: G1Projective, b: G2Projective, s: Scalar) ensures pair(g_mul(a, s), b) == pair(a, g_mul(b, s));
/// non-degenerate: e(a, b) = 1  ==>  a = 0 or b = 0   (both groups have prime order q)
pub axiom fn ax_pair_nondegenerate(a: G1Projective, b: G2Projective) requires pair(a, b) == gt_one() ensures a == g_zero::<G1Projective>() || b == g_zero::<G2Projective>();
/// x^s in the target group; e(a, b·s) = e(a, b)^s
pub uninterp spec fn gt_pow(x: Gt, s: Scalar) -> Gt;
pub axiom fn ax_pair_pow(a: G1Projective, b: G2Projective, s: Scalar) ensures pair(a, g_mul(b, s)) == gt_pow(pair(a, b), s);
