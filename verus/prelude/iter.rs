// ASSUMED contracts: Iterator::sum stand-in (edit D4), ArrayVec as a collect target, Option::expect.

/// Σ over a sequence of group elements / scalars, right fold.
pub open spec fn g_sum<G>(s: Seq<G>) -> G
    decreases s.len()
{
    if s.len() == 0 { g_zero::<G>() } else { g_add(s[0], g_sum(s.subrange(1, s.len() as int))) }
}
pub open spec fn s_sum(s: Seq<Scalar>) -> Scalar
    decreases s.len()
{
    if s.len() == 0 { s_zero() } else { s_add(s[0], s_sum(s.subrange(1, s.len() as int))) }
}

/// `Sum` on bls12_381 types folds with `+` from the identity.
pub trait Summable: Sized { spec fn sum_of(s: Seq<Self>) -> Self; }
impl Summable for G1Projective { open spec fn sum_of(s: Seq<Self>) -> Self { g_sum(s) } }
impl Summable for G2Projective { open spec fn sum_of(s: Seq<Self>) -> Self { g_sum(s) } }
impl Summable for Scalar { open spec fn sum_of(s: Seq<Self>) -> Self { s_sum(s) } }

#[verifier::external_body]
pub fn iter_sum<X: Summable, I: Iterator<Item = X>>(it: I) -> (r: X)
    ensures
        it.will_return_none(),
        r == X::sum_of(it.remaining()),
{ unimplemented!() }

pub mod iter_lemmas {
    use super::*;
    /// extensionality of Σ, stated pointwise so that Z3 can use it without `=~=` in the goal
    pub broadcast proof fn lemma_g_sum_ext<G>(a: Seq<G>, b: Seq<G>)
        requires a.len() == b.len(), forall|i: int| 0 <= i < a.len() ==> a[i] == b[i],
        ensures #[trigger] g_sum(a) == #[trigger] g_sum(b)
    { assert(a =~= b); }
    pub broadcast proof fn lemma_s_sum_ext(a: Seq<Scalar>, b: Seq<Scalar>)
        requires a.len() == b.len(), forall|i: int| 0 <= i < a.len() ==> a[i] == b[i],
        ensures #[trigger] s_sum(a) == #[trigger] s_sum(b)
    { assert(a =~= b); }
}
//@broadcast vstd::std_specs::iter::group_iter_axioms
//@broadcast iter_lemmas::lemma_g_sum_ext
//@broadcast iter_lemmas::lemma_s_sum_ext
