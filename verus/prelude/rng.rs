// ASSUMED contracts of rand / ff::Field::random / group::Group::random: a ghost draw log.
// `random` returns an ARBITRARY value (the contract promises nothing about it) and appends it to the log,
// so every postcondition proved below holds for every randomness stream, including crafted ones.

pub enum Draw { S(Scalar), P1(G1Projective), P2(G2Projective), Bytes(Seq<u8>) }

pub trait Rng: Sized {
    spec fn log(&self) -> Seq<Draw>;
    fn fill_bytes(&mut self, dest: &mut [u8])
        ensures (*final(self)).log() == (*old(self)).log().push(Draw::Bytes(final(dest)@)), final(dest)@.len() == old(dest)@.len();
}

impl Scalar {
    #[verifier::external_body]
    pub fn random<R: Rng>(rng: &mut R) -> (r: Scalar)
        ensures (*final(rng)).log() == (*old(rng)).log().push(Draw::S(r)),
    { unimplemented!() }
}
impl G1Projective {
    #[verifier::external_body]
    pub fn random<R: Rng>(rng: &mut R) -> (r: G1Projective)
        ensures (*final(rng)).log() == (*old(rng)).log().push(Draw::P1(r)),
    { unimplemented!() }
}
impl G2Projective {
    #[verifier::external_body]
    pub fn random<R: Rng>(rng: &mut R) -> (r: G2Projective)
        ensures (*final(rng)).log() == (*old(rng)).log().push(Draw::P2(r)),
    { unimplemented!() }
}

/// `b` extends `a` by at least one draw
pub open spec fn log_extends(a: Seq<Draw>, b: Seq<Draw>) -> bool {
    a.len() < b.len() && b.subrange(0, a.len() as int) =~= a
}
/// `a` is a prefix of `b`
pub open spec fn log_prefix(a: Seq<Draw>, b: Seq<Draw>) -> bool {
    a.len() <= b.len() && b.subrange(0, a.len() as int) =~= a
}

/// rand_core's blanket impl: a mutable reference to a generator is a generator (same stream)
impl<'a, R: Rng> Rng for &'a mut R {
    open spec fn log(&self) -> Seq<Draw> { (**self).log() }
    #[verifier::external_body]
    fn fill_bytes(&mut self, dest: &mut [u8]) { unimplemented!() }
}
