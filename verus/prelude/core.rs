// ASSUMED contracts of bls12_381 / ff / group / subtle (DESIGN.md 2.2).  Everything in this file is
// trusted: opaque types, uninterpreted algebra, and external_body operations whose `ensures` is the
// documented behaviour of the dependency.  No repository code lives here.
//
// Abstraction: an exec value of a group type *is* the abstract group element (spec `==` is group
// equality); affine and projective forms are identified (G1Affine = G1Projective), so conversions are
// the identity.  Scalars are abstract field elements, never machine words.

// ---------------------------------------------------------------------------------------------
// Scalars: a field.

#[verifier::external_body]
pub struct Scalar { _p: [u64; 4] }
impl Clone for Scalar { #[verifier::external_body] fn clone(&self) -> (r: Self) ensures r == *self { unimplemented!() } }
impl Copy for Scalar {}
#[verifier::external]
impl core::fmt::Debug for Scalar { fn fmt(&self, f: &mut core::fmt::Formatter<'_>) -> core::fmt::Result { unimplemented!() } }

pub uninterp spec fn s_add(a: Scalar, b: Scalar) -> Scalar;
pub uninterp spec fn s_mul(a: Scalar, b: Scalar) -> Scalar;
pub uninterp spec fn s_neg(a: Scalar) -> Scalar;
pub uninterp spec fn s_zero() -> Scalar;
pub uninterp spec fn s_one() -> Scalar;
pub uninterp spec fn s_inv(a: Scalar) -> Scalar;
/// ι : int -> Scalar, the ring homomorphism (reduction mod q)
pub uninterp spec fn s_int(i: int) -> Scalar;
pub open spec fn s_sub(a: Scalar, b: Scalar) -> Scalar { s_add(a, s_neg(b)) }
/// canonical 32-byte little-endian encoding
pub uninterp spec fn s_bytes(a: Scalar) -> Seq<u8>;
/// value of a 32-byte little-endian string as an integer
pub uninterp spec fn le_int(b: Seq<u8>) -> int;
/// the group order q
pub uninterp spec fn q_order() -> int;

pub trait SLike: Sized { spec fn val(self) -> Scalar; }
impl SLike for Scalar { open spec fn val(self) -> Scalar { self } }
impl<'a> SLike for &'a Scalar { open spec fn val(self) -> Scalar { *self } }

impl<R: SLike> MulSpecImpl<R> for Scalar {
    open spec fn obeys_mul_spec() -> bool { true }
    open spec fn mul_req(self, rhs: R) -> bool { true }
    open spec fn mul_spec(self, rhs: R) -> Scalar { s_mul(self, rhs.val()) }
}
impl<R: SLike> Mul<R> for Scalar { type Output = Scalar;
    #[verifier::external_body] fn mul(self, rhs: R) -> Scalar { unimplemented!() } }
impl<R: SLike> AddSpecImpl<R> for Scalar {
    open spec fn obeys_add_spec() -> bool { true }
    open spec fn add_req(self, rhs: R) -> bool { true }
    open spec fn add_spec(self, rhs: R) -> Scalar { s_add(self, rhs.val()) }
}
impl<R: SLike> Add<R> for Scalar { type Output = Scalar;
    #[verifier::external_body] fn add(self, rhs: R) -> Scalar { unimplemented!() } }
impl<R: SLike> SubSpecImpl<R> for Scalar {
    open spec fn obeys_sub_spec() -> bool { true }
    open spec fn sub_req(self, rhs: R) -> bool { true }
    open spec fn sub_spec(self, rhs: R) -> Scalar { s_sub(self, rhs.val()) }
}
impl<R: SLike> Sub<R> for Scalar { type Output = Scalar;
    #[verifier::external_body] fn sub(self, rhs: R) -> Scalar { unimplemented!() } }

impl NegSpecImpl for Scalar {
    open spec fn obeys_neg_spec() -> bool { true }
    open spec fn neg_req(self) -> bool { true }
    open spec fn neg_spec(self) -> Scalar { s_neg(self) }
}
impl Neg for Scalar { type Output = Scalar;
    #[verifier::external_body] fn neg(self) -> Scalar { unimplemented!() } }

impl PartialEqSpecImpl for Scalar {
    open spec fn obeys_eq_spec() -> bool { true }
    open spec fn eq_spec(&self, other: &Self) -> bool { *self == *other }
}
impl PartialEq for Scalar { #[verifier::external_body] fn eq(&self, other: &Self) -> (r: bool) { unimplemented!() } }

impl FromSpecImpl<u64> for Scalar {
    open spec fn obeys_from_spec() -> bool { true }
    open spec fn from_spec(v: u64) -> Scalar { s_int(v as int) }
}
impl From<u64> for Scalar { #[verifier::external_body] fn from(v: u64) -> (r: Scalar) { unimplemented!() } }

impl AddAssign<Scalar> for Scalar {
    #[verifier::external_body]
    fn add_assign(&mut self, rhs: Scalar) { unimplemented!() }
}
impl AddAssignSpecImpl<Scalar> for Scalar {
    open spec fn obeys_add_assign_spec() -> bool { true }
    open spec fn add_assign_req(&self, rhs: Scalar) -> bool { true }
    open spec fn add_assign_spec(&self, rhs: Scalar) -> &Self { &s_add(*self, rhs) }
}
impl MulAssign<Scalar> for Scalar {
    #[verifier::external_body]
    fn mul_assign(&mut self, rhs: Scalar) { unimplemented!() }
}
impl MulAssignSpecImpl<Scalar> for Scalar {
    open spec fn obeys_mul_assign_spec() -> bool { true }
    open spec fn mul_assign_req(&self, rhs: Scalar) -> bool { true }
    open spec fn mul_assign_spec(&self, rhs: Scalar) -> &Self { &s_mul(*self, rhs) }
}

impl Scalar {
    #[verifier::external_body]
    pub fn zero() -> (r: Scalar) ensures r == s_zero() { unimplemented!() }
    #[verifier::external_body]
    pub fn one() -> (r: Scalar) ensures r == s_one() { unimplemented!() }
    #[verifier::external_body]
    pub fn is_zero(&self) -> (r: bool) ensures r == (*self == s_zero()) { unimplemented!() }
    #[verifier::external_body]
    pub fn to_bytes(&self) -> (r: [u8; 32]) ensures r@ == s_bytes(*self) { unimplemented!() }
}

// ---------------------------------------------------------------------------------------------
// Groups G1, G2 (prime order, written additively) and the target group Gt (written multiplicatively).

pub uninterp spec fn g_add<G>(a: G, b: G) -> G;
pub uninterp spec fn g_mul<G>(a: G, s: Scalar) -> G;
pub uninterp spec fn g_neg<G>(a: G) -> G;
pub uninterp spec fn g_zero<G>() -> G;
pub open spec fn g_sub<G>(a: G, b: G) -> G { g_add(a, g_neg(b)) }
/// canonical compressed encoding (48 bytes for G1, 96 for G2)
pub uninterp spec fn g_bytes<G>(a: G) -> Seq<u8>;

pub trait Group: Sized + Copy { type Scalar; }

#[verifier::external_body]
pub struct Choice { _p: u8 }
pub uninterp spec fn choice_val(c: Choice) -> bool;
impl FromSpecImpl<Choice> for bool {
    open spec fn obeys_from_spec() -> bool { true }
    open spec fn from_spec(c: Choice) -> bool { choice_val(c) }
}
impl From<Choice> for bool { #[verifier::external_body] fn from(c: Choice) -> (r: bool) { unimplemented!() } }
// subtle::Choice combinators (constant-time boolean algebra)
impl BitOrSpecImpl<Choice> for Choice {
    open spec fn obeys_bitor_spec() -> bool { false }
    open spec fn bitor_req(self, rhs: Choice) -> bool { true }
    open spec fn bitor_spec(self, rhs: Choice) -> Choice { self }
}
impl core::ops::BitOr<Choice> for Choice { type Output = Choice;
    #[verifier::external_body] fn bitor(self, rhs: Choice) -> (r: Choice) ensures choice_val(r) == (choice_val(self) || choice_val(rhs)) { unimplemented!() } }
impl BitAndSpecImpl<Choice> for Choice {
    open spec fn obeys_bitand_spec() -> bool { false }
    open spec fn bitand_req(self, rhs: Choice) -> bool { true }
    open spec fn bitand_spec(self, rhs: Choice) -> Choice { self }
}
impl core::ops::BitAnd<Choice> for Choice { type Output = Choice;
    #[verifier::external_body] fn bitand(self, rhs: Choice) -> (r: Choice) ensures choice_val(r) == (choice_val(self) && choice_val(rhs)) { unimplemented!() } }
impl NotSpecImpl for Choice {
    open spec fn obeys_not_spec() -> bool { false }
    open spec fn not_req(self) -> bool { true }
    open spec fn not_spec(self) -> Choice { self }
}
impl core::ops::Not for Choice { type Output = Choice;
    #[verifier::external_body] fn not(self) -> (r: Choice) ensures choice_val(r) == !choice_val(self) { unimplemented!() } }

//@for T,W,BYTES in G1Projective,18,48 | G2Projective,36,96
#[verifier::external_body]
pub struct @T@ { _p: [u64; @W@] }
impl Clone for @T@ { #[verifier::external_body] fn clone(&self) -> (r: Self) ensures r == *self { unimplemented!() } }
impl Copy for @T@ {}
impl Group for @T@ { type Scalar = Scalar; }
#[verifier::external]
impl core::fmt::Debug for @T@ { fn fmt(&self, f: &mut core::fmt::Formatter<'_>) -> core::fmt::Result { unimplemented!() } }

impl<R: SLike> MulSpecImpl<R> for @T@ {
    open spec fn obeys_mul_spec() -> bool { true }
    open spec fn mul_req(self, rhs: R) -> bool { true }
    open spec fn mul_spec(self, rhs: R) -> @T@ { g_mul(self, rhs.val()) }
}
impl<R: SLike> Mul<R> for @T@ { type Output = @T@;
    #[verifier::external_body] fn mul(self, rhs: R) -> @T@ { unimplemented!() } }
impl<'a, R: SLike> MulSpecImpl<R> for &'a @T@ {
    open spec fn obeys_mul_spec() -> bool { true }
    open spec fn mul_req(self, rhs: R) -> bool { true }
    open spec fn mul_spec(self, rhs: R) -> @T@ { g_mul(*self, rhs.val()) }
}
impl<'a, R: SLike> Mul<R> for &'a @T@ { type Output = @T@;
    #[verifier::external_body] fn mul(self, rhs: R) -> @T@ { unimplemented!() } }

impl AddSpecImpl<@T@> for @T@ {
    open spec fn obeys_add_spec() -> bool { true }
    open spec fn add_req(self, rhs: @T@) -> bool { true }
    open spec fn add_spec(self, rhs: @T@) -> @T@ { g_add(self, rhs) }
}
impl Add<@T@> for @T@ { type Output = @T@;
    #[verifier::external_body] fn add(self, rhs: @T@) -> @T@ { unimplemented!() } }
impl SubSpecImpl<@T@> for @T@ {
    open spec fn obeys_sub_spec() -> bool { true }
    open spec fn sub_req(self, rhs: @T@) -> bool { true }
    open spec fn sub_spec(self, rhs: @T@) -> @T@ { g_sub(self, rhs) }
}
impl Sub<@T@> for @T@ { type Output = @T@;
    #[verifier::external_body] fn sub(self, rhs: @T@) -> @T@ { unimplemented!() } }
impl NegSpecImpl for @T@ {
    open spec fn obeys_neg_spec() -> bool { true }
    open spec fn neg_req(self) -> bool { true }
    open spec fn neg_spec(self) -> @T@ { g_neg(self) }
}
impl Neg for @T@ { type Output = @T@;
    #[verifier::external_body] fn neg(self) -> @T@ { unimplemented!() } }

impl PartialEqSpecImpl for @T@ {
    open spec fn obeys_eq_spec() -> bool { true }
    open spec fn eq_spec(&self, other: &Self) -> bool { *self == *other }
}
impl PartialEq for @T@ { #[verifier::external_body] fn eq(&self, other: &Self) -> (r: bool) { unimplemented!() } }

impl<'a> FromSpecImpl<&'a @T@> for @T@ {
    open spec fn obeys_from_spec() -> bool { true }
    open spec fn from_spec(c: &'a @T@) -> @T@ { *c }
}
impl<'a> From<&'a @T@> for @T@ { #[verifier::external_body] fn from(c: &'a @T@) -> (r: @T@) { unimplemented!() } }

impl @T@ {
    #[verifier::external_body]
    pub fn identity() -> (r: @T@) ensures r == g_zero::<@T@>() { unimplemented!() }
    #[verifier::external_body]
    pub fn is_identity(&self) -> (r: Choice) ensures choice_val(r) == (*self == g_zero::<@T@>()) { unimplemented!() }
    /// affine and projective forms are identified
    #[verifier::external_body]
    pub fn to_affine(&self) -> (r: @T@) ensures r == *self { unimplemented!() }
    #[verifier::external_body]
    pub fn to_bytes(&self) -> (r: [u8; @BYTES@]) ensures r@ == g_bytes(*self) { unimplemented!() }
    #[verifier::external_body]
    pub fn to_compressed(&self) -> (r: [u8; @BYTES@]) ensures r@ == g_bytes(*self) { unimplemented!() }
}
//@end
pub type G1Affine = G1Projective;
pub type G2Affine = G2Projective;

// ---------------------------------------------------------------------------------------------
// std shims

pub assume_specification<T: ?Sized, A: core::alloc::Allocator>
    [<std::boxed::Box<T, A> as core::convert::AsRef<T>>::as_ref] (b: &std::boxed::Box<T, A>) -> (r: &T)
    ensures r == &**b;

// `[T; N]` seen as a slice
pub assume_specification<T, const N: usize>[<[T; N] as core::convert::AsRef<[T]>>::as_ref](a: &[T; N]) -> (r: &[T])
    ensures r@ == a@;

// reflexive conversion `T -> T` (affine/projective forms are one type here)
pub assume_specification<T>[<T as core::convert::From<T>>::from](t: T) -> (r: T)
    ensures r == t;
