// ASSUMED contracts of arrayvec::ArrayVec (collect target, into_inner) and Result::expect on it.

#[verifier::external_body]
#[verifier::reject_recursive_types(T)]
pub struct ArrayVec<T, const CAP: usize> { _p: core::marker::PhantomData<T> }

#[verifier::external]
impl<T, const CAP: usize> core::fmt::Debug for ArrayVec<T, CAP> {
    fn fmt(&self, f: &mut core::fmt::Formatter<'_>) -> core::fmt::Result { unimplemented!() }
}

impl<T, const CAP: usize> View for ArrayVec<T, CAP> {
    type V = Seq<T>;
    uninterp spec fn view(&self) -> Seq<T>;
}

impl<T, const CAP: usize> vstd::std_specs::iter::FromIteratorSpecImpl<T> for ArrayVec<T, CAP> {
    open spec fn from_iter_ensures(s: Seq<T>, r: Self) -> bool { r@ == s }
}
impl<T, const CAP: usize> core::iter::FromIterator<T> for ArrayVec<T, CAP> {
    #[verifier::external_body]
    fn from_iter<I: IntoIterator<Item = T>>(iter: I) -> Self { unimplemented!() }
}

impl<T, const CAP: usize> ArrayVec<T, CAP> {
    /// Ok(array) iff the vector is full
    #[verifier::external_body]
    pub fn into_inner(self) -> (r: Result<[T; CAP], ArrayVec<T, CAP>>)
        ensures
            self@.len() == CAP ==> r is Ok && r->Ok_0@ == self@,
            self@.len() != CAP ==> r is Err,
    { unimplemented!() }
}
