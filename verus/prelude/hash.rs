// ASSUMED contracts of sha3::Sha3_256 (ghost byte-string view) and of byte views of fixed arrays.
// Collision resistance is NOT an axiom.

#[verifier::external_body]
pub struct Sha3_256 { _p: [u64; 25] }
/// ghost view: the ordered list of chunks fed to `update`/`chain` so far (the hashed string is their concatenation)
impl View for Sha3_256 {
    type V = Seq<Seq<u8>>;
    uninterp spec fn view(&self) -> Seq<Seq<u8>>;
}
pub open spec fn flatten(t: Seq<Seq<u8>>) -> Seq<u8>
    decreases t.len()
{
    if t.len() == 0 { Seq::<u8>::empty() } else { flatten(t.drop_last()) + t.last() }
}
/// SHA3-256 of a byte string (32 bytes)
pub uninterp spec fn sha3_256(t: Seq<u8>) -> Seq<u8>;
/// the bytes seen through `AsRef<[u8]>`
pub uninterp spec fn bytes_of<B>(b: B) -> Seq<u8>;

pub broadcast axiom fn axiom_bytes_of_arr32(a: [u8; 32]) ensures #[trigger] bytes_of(a) == a@;
pub broadcast axiom fn axiom_bytes_of_arr48(a: [u8; 48]) ensures #[trigger] bytes_of(a) == a@;
pub broadcast axiom fn axiom_bytes_of_arr96(a: [u8; 96]) ensures #[trigger] bytes_of(a) == a@;
pub broadcast axiom fn axiom_bytes_of_arr1(a: [u8; 1]) ensures #[trigger] bytes_of(a) == seq![a@[0]];
pub broadcast axiom fn axiom_bytes_of_ref32(a: &[u8; 32]) ensures #[trigger] bytes_of(a) == a@;
pub broadcast axiom fn axiom_bytes_of_slice(a: &[u8]) ensures #[trigger] bytes_of(a) == a@;
pub broadcast axiom fn axiom_bytes_of_vec(a: Vec<u8>) ensures #[trigger] bytes_of(a) == a@;

#[verifier::external_body]
pub struct Digest32 { _p: [u8; 32] }
impl View for Digest32 {
    type V = Seq<u8>;
    uninterp spec fn view(&self) -> Seq<u8>;
}

impl Digest32 {
    #[verifier::external_body]
    pub fn as_ref(&self) -> (r: &[u8; 32]) ensures r@ == self@ { unimplemented!() }
}

impl Sha3_256 {
    #[verifier::external_body]
    pub fn new() -> (r: Sha3_256) ensures r@ == Seq::<Seq<u8>>::empty() { unimplemented!() }
    #[verifier::external_body]
    pub fn update<B: AsRef<[u8]>>(&mut self, bytes: B) ensures final(self)@ == old(self)@.push(bytes_of(bytes)) { unimplemented!() }
    #[verifier::external_body]
    pub fn chain<B: AsRef<[u8]>>(self, bytes: B) -> (r: Sha3_256) ensures r@ == self@.push(bytes_of(bytes)) { unimplemented!() }
    #[verifier::external_body]
    pub fn finalize(self) -> (r: Digest32) ensures r@ == sha3_256(flatten(self@)), r@.len() == 32 { unimplemented!() }
}
//@broadcast axiom_bytes_of_arr32
//@broadcast axiom_bytes_of_arr48
//@broadcast axiom_bytes_of_arr96
//@broadcast axiom_bytes_of_arr1
//@broadcast axiom_bytes_of_ref32
//@broadcast axiom_bytes_of_slice
//@broadcast axiom_bytes_of_vec

/// the challenge scalar derived from a transcript: Scalar::from_raw of the four little-endian words of SHA3-256(flatten(t))
pub uninterp spec fn chal(t: Seq<Seq<u8>>) -> Scalar;
