// Lemmas about Pointcheval-Sanders signatures (pure mathematics; no repository code).

pub open spec fn s_terms(ys: Seq<Scalar>, m: Seq<Scalar>) -> Seq<Scalar> { Seq::new(ys.len(), |i: int| s_mul(ys[i], m[i])) }

/// Σ g·t_i == g·Σ t_i
pub proof fn lemma_g_sum_common_point<G>(g: G, t: Seq<Scalar>)
    ensures g_sum(Seq::new(t.len(), |i: int| g_mul(g, t[i]))) == g_mul(g, s_sum(t)),
    decreases t.len(),
{
    let s = Seq::new(t.len(), |i: int| g_mul(g, t[i]));
    if t.len() == 0 {
        lemma_g_mul_zero_scalar(g);
    } else {
        let n = t.len() as int;
        let t1 = t.subrange(1, n);
        assert(s.subrange(1, n) =~= Seq::new(t1.len(), |i: int| g_mul(g, t1[i])));
        lemma_g_sum_common_point(g, t1);
        ax_g_mul_add_scalar(g, t[0], s_sum(t1));
    }
}

/// if every Y_i = g·y_i then Σ Y_i·m_i = g·Σ y_i·m_i
pub proof fn lemma_ip_key<G>(g: G, ys: Seq<Scalar>, ygs: Seq<G>, m: Seq<Scalar>)
    requires ys.len() == m.len(), ygs.len() == m.len(), forall|i: int| 0 <= i < ys.len() ==> #[trigger] ygs[i] == g_mul(g, ys[i]),
    ensures ip(ygs, m) == g_mul(g, s_ip(ys, m)),
{
    let t = s_terms(ys, m);
    assert forall|i: int| 0 <= i < m.len() implies #[trigger] ip_terms(ygs, m)[i] == g_mul(g, t[i]) by {
        ax_g_mul_mul(g, ys[i], m[i]);
    }
    assert(ip_terms(ygs, m) =~= Seq::new(t.len(), |i: int| g_mul(g, t[i])));
    lemma_g_sum_common_point(g, t);
    assert(s_ip(ys, m) == s_sum(t));
}

/// the signing exponent  k = x + Σ y_i·m_i
pub open spec fn ps_exponent(x: Scalar, ys: Seq<Scalar>, m: Seq<Scalar>) -> Scalar { s_add(x, s_ip(ys, m)) }

/// under a well-formed key, X~ + Σ Y~_i·m_i == g~·k
pub proof fn lemma_ps_base<const DUMMY: usize>(g1: G1Projective, g2: G2Projective, x: Scalar, ys: Seq<Scalar>, x1: G1Projective, y1s: Seq<G1Projective>, x2: G2Projective, y2s: Seq<G2Projective>, m: Seq<Scalar>)
    requires ps_key_ok(g1, g2, x, ys, x1, y1s, x2, y2s), m.len() == ys.len(),
    ensures ps_base(x2, y2s, m) == g_mul(g2, ps_exponent(x, ys, m)),
{
    lemma_ip_key(g2, ys, y2s, m);
    ax_g_mul_add_scalar(g2, x, s_ip(ys, m));
}

/// (h, h·k) verifies against base g~·k whenever h is not the identity
pub proof fn lemma_ps_pairing(h: G1Projective, k: Scalar, g2: G2Projective)
    ensures ps_pairing_ok(h, g_mul(h, k), g_mul(g2, k), g2),
{
    // e(h, g2·k) == e(h·k, g2)
    ax_pair_scalar(h, g2, k);
    lemma_pair_neg_right(g_mul(h, k), g2);
}

/// Signing is sound: a signature (h, h·(x + Σ y_i m_i)) with h != 1 verifies on m under a well-formed key.
pub proof fn lemma_ps_sign_sound(g1: G1Projective, g2: G2Projective, x: Scalar, ys: Seq<Scalar>, x1: G1Projective, y1s: Seq<G1Projective>, x2: G2Projective, y2s: Seq<G2Projective>, m: Seq<Scalar>, h: G1Projective)
    requires ps_key_ok(g1, g2, x, ys, x1, y1s, x2, y2s), m.len() == ys.len(), h != g_zero::<G1Projective>(),
    ensures ps_valid(g2, x2, y2s, m, h, g_mul(h, ps_exponent(x, ys, m))),   // @ob ps.signing-sound [C07 C19]
{
    lemma_ps_base::<0>(g1, g2, x, ys, x1, y1s, x2, y2s, m);
    lemma_ps_pairing(h, ps_exponent(x, ys, m), g2);
}

/// Re-randomising (sigma1·r, sigma2·r) preserves validity iff r != 0; for r == 0 it yields the all-identity
/// signature, which never verifies.
pub proof fn lemma_ps_randomize(g2: G2Projective, x2: G2Projective, y2s: Seq<G2Projective>, m: Seq<Scalar>, s1: G1Projective, s2: G1Projective, r: Scalar)
    requires ps_valid(g2, x2, y2s, m, s1, s2),
    ensures
        r != s_zero() ==> ps_valid(g2, x2, y2s, m, g_mul(s1, r), g_mul(s2, r)),   // @ob ps.randomized-signature-verifies [C07 C03 C14]
        r == s_zero() ==> g_mul(s1, r) == g_zero::<G1Projective>() && !ps_valid(g2, x2, y2s, m, g_mul(s1, r), g_mul(s2, r)),   // @ob ps.zero-randomizer-gives-identity-signature-never-valid [C07]
{
    let base = ps_base(x2, y2s, m);
    if r == s_zero() {
        lemma_g_mul_zero_scalar(s1);
    } else {
        if g_mul(s1, r) == g_zero::<G1Projective>() {
            ax_g_prime_order(s1, r);
        }
        // e(s1·r, base) == e(s1, base·r) ; e(s2·r, g2) == e(s2, g2·r); from e(s1, base) == e(s2, g2) via the scalar action
        lemma_pairing_check_form(s1, base, s2, g2);
        lemma_pairing_check_form(g_mul(s1, r), base, g_mul(s2, r), g2);
        lemma_pair_pow(s1, base, s2, g2, r);
    }
}

/// e(a, b) == e(c, d)  ==>  e(a·r, b) == e(c·r, d)
pub proof fn lemma_pair_pow(a: G1Projective, b: G2Projective, c: G1Projective, d: G2Projective, r: Scalar)
    requires pair(a, b) == pair(c, d),
    ensures pair(g_mul(a, r), b) == pair(g_mul(c, r), d),
{
    // e(a·r, b) == e(a, b·r) == e(a, b)^r
    ax_pair_scalar(a, b, r);
    ax_pair_scalar(c, d, r);
    ax_pair_pow(a, b, r);
    ax_pair_pow(c, d, r);
}

/// Blind signing then unblinding: from (g·u, (X1 + C)·u) with C = g·bf + Σ Y_i·m_i, removing sigma1·bf
/// leaves (h, h·k) with h = g·u.
pub proof fn lemma_ps_blind_sign_unblind(g1: G1Projective, g2: G2Projective, x: Scalar, ys: Seq<Scalar>, x1: G1Projective, y1s: Seq<G1Projective>, x2: G2Projective, y2s: Seq<G2Projective>, m: Seq<Scalar>, bf: Scalar, u: Scalar)
    requires ps_key_ok(g1, g2, x, ys, x1, y1s, x2, y2s), m.len() == ys.len(),
    ensures
        ({
            let c = com(g1, y1s, m, bf);
            let s1 = g_mul(g1, u);
            let s2 = g_mul(g_add(x1, c), u);
            let unblinded = g_sub(s2, g_mul(s1, bf));
            &&& unblinded == g_mul(s1, ps_exponent(x, ys, m))
            &&& (u != s_zero() ==> ps_valid(g2, x2, y2s, m, s1, unblinded))
            &&& (u == s_zero() ==> s1 == g_zero::<G1Projective>())
        }),   // @ob ps.blind-sign-then-unblind-is-a-signature-on-the-message [C08 C07 C01 C02 C03]
{
    let k = ps_exponent(x, ys, m);
    let c = com(g1, y1s, m, bf);
    let s1 = g_mul(g1, u);
    let s2 = g_mul(g_add(x1, c), u);
    // x1 + c == g1·x + (g1·bf + g1·Σ) == g1·(x + Σ) + g1·bf == g1·k + g1·bf
    lemma_ip_key(g1, ys, y1s, m);
    let sig = s_ip(ys, m);
    ax_g_add_comm(g_mul(g1, bf), g_mul(g1, sig));
    ax_g_add_assoc(g_mul(g1, x), g_mul(g1, sig), g_mul(g1, bf));
    ax_g_mul_add_scalar(g1, x, sig);
    assert(g_add(x1, c) == g_add(g_mul(g1, k), g_mul(g1, bf)));
    // times u
    ax_g_mul_add_point(g_mul(g1, k), g_mul(g1, bf), u);
    ax_g_mul_mul(g1, k, u);
    ax_g_mul_mul(g1, bf, u);
    ax_g_mul_mul(g1, u, k);
    ax_g_mul_mul(g1, u, bf);
    ax_s_mul_comm(k, u);
    ax_s_mul_comm(bf, u);
    assert(s2 == g_add(g_mul(s1, k), g_mul(s1, bf)));
    lemma_g_add_sub(g_mul(s1, k), g_mul(s1, bf));
    if u != s_zero() {
        if s1 == g_zero::<G1Projective>() {
            ax_g_prime_order(g1, u);
        }
        lemma_ps_sign_sound(g1, g2, x, ys, x1, y1s, x2, y2s, m, s1);
    } else {
        lemma_g_mul_zero_scalar(g1);
    }
}

/// Coordinate lemma: one signature valid on two messages under a well-formed key forces equal signing
/// exponents; in particular two messages that differ in exactly one coordinate cannot both verify.
pub proof fn lemma_ps_coordinate(g1: G1Projective, g2: G2Projective, x: Scalar, ys: Seq<Scalar>, x1: G1Projective, y1s: Seq<G1Projective>, x2: G2Projective, y2s: Seq<G2Projective>, m: Seq<Scalar>, i: int, v: Scalar, s1: G1Projective, s2: G1Projective)
    requires
        ps_key_ok(g1, g2, x, ys, x1, y1s, x2, y2s), m.len() == ys.len(), 0 <= i < m.len(), v != m[i],
        ps_valid(g2, x2, y2s, m, s1, s2),
    ensures !ps_valid(g2, x2, y2s, m.update(i, v), s1, s2),   // @ob ps.single-coordinate-change-rejected [C07 C08 C06 C18 C03]
{
    let m2 = m.update(i, v);
    if ps_valid(g2, x2, y2s, m2, s1, s2) {
        let b = ps_base(x2, y2s, m);
        let b2 = ps_base(x2, y2s, m2);
        // e(s1, b)·t == 1 == e(s1, b2)·t  ==> e(s1, b) == e(s1, b2)
        let t = pair(s2, g_neg(g2));
        ax_gt_mul_comm(pair(s1, b), t);
        ax_gt_mul_comm(pair(s1, b2), t);
        lemma_gt_cancel_left(t, pair(s1, b), pair(s1, b2));
        // e(s1, b2 − b) == 1
        ax_pair_add_right(s1, b2, g_neg(b));
        lemma_pair_neg_right(s1, b);
        assert(pair(s1, g_sub(b2, b)) == gt_one());
        ax_pair_nondegenerate(s1, g_sub(b2, b));
        lemma_g_sub_zero(b2, b);
        // b2 == b  ==>  ip(y2s, m2) == ip(y2s, m)  ==>  y2s[i]·(v − m[i]) == 0
        lemma_g_cancel_left(x2, ip(y2s, m2), ip(y2s, m));
        lemma_ip_update(y2s, m, i, v);
        ax_g_add_zero(ip(y2s, m));
        lemma_g_cancel_left(ip(y2s, m), g_mul(y2s[i], s_sub(v, m[i])), g_zero::<G2Projective>());
        // y2s[i] = g2·ys[i] is not the identity
        assert(y1s[i] == g_mul(g1, ys[i]) && ys[i] != s_zero());
        assert(y2s[i] == g_mul(g2, ys[i]));
        if y2s[i] == g_zero::<G2Projective>() {
            ax_g_prime_order(g2, ys[i]);
        }
        ax_g_prime_order(y2s[i], s_sub(v, m[i]));
        lemma_s_sub_zero(v, m[i]);
    }
}

/// The all-identity signature never verifies.
pub proof fn lemma_ps_identity_never_valid(g2: G2Projective, x2: G2Projective, y2s: Seq<G2Projective>, m: Seq<Scalar>, s2: G1Projective)
    ensures !ps_valid(g2, x2, y2s, m, g_zero::<G1Projective>(), s2),   // @ob ps.identity-signature-never-valid [C07 C11]
{
}

/// The pairing link of a signature proof: blinding a valid signature with the commitment's blinding factor
/// and re-randomising it satisfies  e(sigma1', X~ + C) == e(sigma2', g~)  for  C = g~·bf + Σ Y~_i·m_i.
pub proof fn lemma_ps_blinded_link(g2: G2Projective, x2: G2Projective, y2s: Seq<G2Projective>, m: Seq<Scalar>, s1: G1Projective, s2: G1Projective, bf: Scalar, r: Scalar)
    requires ps_valid(g2, x2, y2s, m, s1, s2), r != s_zero(),
    ensures
        g_mul(s1, r) != g_zero::<G1Projective>(),
        ps_pairing_ok(g_mul(s1, r), g_mul(g_add(s2, g_mul(s1, bf)), r), g_add(x2, com(g2, y2s, m, bf)), g2),   // @ob ps.blinded-signature-links-to-the-commitment [C10 C04]
{
    let base = ps_base(x2, y2s, m);
    if g_mul(s1, r) == g_zero::<G1Projective>() {
        ax_g_prime_order(s1, r);
    }
    // X~ + (g~·bf + Σ) == (X~ + Σ) + g~·bf
    ax_g_add_comm(g_mul(g2, bf), ip(y2s, m));
    ax_g_add_assoc(x2, ip(y2s, m), g_mul(g2, bf));
    let b2 = g_add(base, g_mul(g2, bf));
    assert(g_add(x2, com(g2, y2s, m, bf)) == b2);
    // e(s1, b2) == e(s1, base)·e(s1, g~·bf) == e(s2, g~)·e(s1·bf, g~) == e(s2 + s1·bf, g~)
    lemma_pairing_check_form(s1, base, s2, g2);
    ax_pair_add_right(s1, base, g_mul(g2, bf));
    ax_pair_scalar(s1, g2, bf);
    ax_pair_add_left(s2, g_mul(s1, bf), g2);
    assert(pair(s1, b2) == pair(g_add(s2, g_mul(s1, bf)), g2));
    lemma_pair_pow(s1, b2, g_add(s2, g_mul(s1, bf)), g2, r);
    lemma_pairing_check_form(g_mul(s1, r), b2, g_mul(g_add(s2, g_mul(s1, bf)), r), g2);
}

/// (a − b) + b == a
pub proof fn lemma_g_sub_add<G>(a: G, b: G)
    ensures g_add(g_sub(a, b), b) == a,
{
    ax_g_add_assoc(a, g_neg(b), b);
    ax_g_add_comm(g_neg(b), b);
    ax_g_add_neg(b);
    ax_g_add_zero(a);
}

/// The pairing link of a signature proof read backwards (what a verifier learns): if the shown pair satisfies
/// e(s1, X~ + C) == e(s2, g~) for C = g~·bf + Σ Y~_i·m_i and s1 != 1, then (s1, s2 − s1·bf) is a valid signature on m.
pub proof fn lemma_ps_unblind_link(g2: G2Projective, x2: G2Projective, y2s: Seq<G2Projective>, m: Seq<Scalar>, s1: G1Projective, s2: G1Projective, bf: Scalar)
    requires s1 != g_zero::<G1Projective>(), ps_pairing_ok(s1, s2, g_add(x2, com(g2, y2s, m, bf)), g2),
    ensures ps_valid(g2, x2, y2s, m, s1, g_sub(s2, g_mul(s1, bf))),   // @ob ps.shown-signature-unblinds-to-a-valid-signature-on-the-committed-message [C02 C11]
{
    let base = ps_base(x2, y2s, m);
    let u = g_sub(s2, g_mul(s1, bf));
    let p = pair(g_mul(s1, bf), g2);
    // X~ + (g~·bf + Σ) == (X~ + Σ) + g~·bf
    ax_g_add_comm(g_mul(g2, bf), ip(y2s, m));
    ax_g_add_assoc(x2, ip(y2s, m), g_mul(g2, bf));
    let b2 = g_add(base, g_mul(g2, bf));
    assert(g_add(x2, com(g2, y2s, m, bf)) == b2);
    lemma_pairing_check_form(s1, b2, s2, g2);
    // e(s1, b2) == e(s1, base)·e(s1·bf, g~)
    ax_pair_add_right(s1, base, g_mul(g2, bf));
    ax_pair_scalar(s1, g2, bf);
    // e(s2, g~) == e(u, g~)·e(s1·bf, g~)
    lemma_g_sub_add(s2, g_mul(s1, bf));
    ax_pair_add_left(u, g_mul(s1, bf), g2);
    assert(gt_mul(pair(s1, base), p) == gt_mul(pair(u, g2), p));
    ax_gt_mul_comm(pair(s1, base), p);
    ax_gt_mul_comm(pair(u, g2), p);
    lemma_gt_cancel_left(p, pair(s1, base), pair(u, g2));
    lemma_pairing_check_form(s1, base, u, g2);
}
