// The documented constraint patterns as identities on honest response scalars z = c·m + s
// (pure mathematics; no repository code).

/// (a + b) + (c + d) == (a + c) + (b + d)
pub proof fn lemma_s_add_interchange(a: Scalar, b: Scalar, c: Scalar, d: Scalar)
    ensures s_add(s_add(a, b), s_add(c, d)) == s_add(s_add(a, c), s_add(b, d)),
{
    ax_s_add_assoc(a, b, s_add(c, d));
    ax_s_add_assoc(b, c, d);
    ax_s_add_comm(b, c);
    ax_s_add_assoc(c, b, d);
    ax_s_add_assoc(a, c, s_add(b, d));
    assert(s_add(b, s_add(c, d)) == s_add(s_add(b, c), d));
    assert(s_add(s_add(c, b), d) == s_add(c, s_add(b, d)));
}

/// equality: the same value under the same commitment scalar gives the same response (within and across proofs)
pub proof fn lemma_pattern_equality(c: Scalar, m: Scalar, s: Scalar, m2: Scalar, s2: Scalar)
    requires m == m2, s == s2,
    ensures resp(c, m, s) == resp(c, m2, s2),   // @ob pattern.equality [C10]
{
}

/// secret sum: m3 = m1 + m2 with s3 = s1 + s2 gives z3 = z1 + z2
pub proof fn lemma_pattern_sum(c: Scalar, m1: Scalar, s1: Scalar, m2: Scalar, s2: Scalar)
    ensures resp(c, s_add(m1, m2), s_add(s1, s2)) == s_add(resp(c, m1, s1), resp(c, m2, s2)),   // @ob pattern.secret-sum [C10]
{
    ax_s_distrib(c, m1, m2);
    lemma_s_add_interchange(s_mul(c, m1), s_mul(c, m2), s1, s2);
}

/// public addition: m2 = m1 + a (a public) under the same commitment scalar gives z2 = z1 + c·a
pub proof fn lemma_pattern_public_addition(c: Scalar, m1: Scalar, s: Scalar, a: Scalar)
    ensures resp(c, s_add(m1, a), s) == s_add(resp(c, m1, s), s_mul(c, a)),   // @ob pattern.public-addition [C10 C02 C04]
{
    ax_s_distrib(c, m1, a);
    // (c·m1 + c·a) + s == (c·m1 + s) + c·a
    ax_s_add_assoc(s_mul(c, m1), s_mul(c, a), s);
    ax_s_add_comm(s_mul(c, a), s);
    ax_s_add_assoc(s_mul(c, m1), s, s_mul(c, a));
}

/// public subtraction: m2 = m1 − a under the same commitment scalar gives z2 = z1 − c·a
pub proof fn lemma_pattern_public_subtraction(c: Scalar, m1: Scalar, s: Scalar, a: Scalar)
    ensures resp(c, s_sub(m1, a), s) == s_sub(resp(c, m1, s), s_mul(c, a)),   // @ob pattern.public-subtraction [C10 C02 C04]
{
    lemma_pattern_public_addition(c, m1, s, s_neg(a));
    lemma_s_mul_neg(c, a);
}

/// public product: m2 = a·m1 with s2 = a·s1 gives z2 = a·z1
pub proof fn lemma_pattern_public_product(c: Scalar, m1: Scalar, s1: Scalar, a: Scalar)
    ensures resp(c, s_mul(a, m1), s_mul(a, s1)) == s_mul(a, resp(c, m1, s1)),   // @ob pattern.public-product [C10]
{
    ax_s_distrib(a, s_mul(c, m1), s1);
    ax_s_mul_assoc(a, c, m1);
    ax_s_mul_comm(a, c);
    ax_s_mul_assoc(c, a, m1);
    assert(s_mul(a, s_mul(c, m1)) == s_mul(s_mul(a, c), m1));
    assert(s_mul(s_mul(c, a), m1) == s_mul(c, s_mul(a, m1)));
}

/// partial opening / public value: revealing the commitment scalar s of a slot whose message value v is public
/// makes the slot checkable as z == c·v + s
pub proof fn lemma_pattern_public_value(c: Scalar, v: Scalar, s: Scalar, z: Scalar)
    requires z == resp(c, v, s),
    ensures z == s_add(s_mul(c, v), s),   // @ob pattern.partial-opening [C10 C01 C02]
{
}
