// Integer ledger and its scalar encoding (pure mathematics; no repository code).

/// enc(a) for a signed amount: ι(a) for a >= 0, 0 − ι(|a|) for a < 0 (the form the code computes)
pub open spec fn enc_amount(a: int) -> Scalar {
    if a < 0 { s_sub(s_zero(), s_int(-a)) } else { s_int(a) }
}
pub open spec fn bal_max() -> int { 0x7fff_ffff_ffff_ffff }
