// Pointcheval-Sanders signatures over abstract groups (pure mathematics; no repository code).

/// Σ_i ts[i]·us[i] over scalars
pub open spec fn s_ip(ts: Seq<Scalar>, us: Seq<Scalar>) -> Scalar {
    s_sum(Seq::new(ts.len(), |i: int| s_mul(ts[i], us[i])))
}

/// X~ + Σ Y~_i·m_i
pub open spec fn ps_base(x2: G2Projective, y2s: Seq<G2Projective>, m: Seq<Scalar>) -> G2Projective {
    g_add(x2, ip(y2s, m))
}

/// product of the two pairings evaluated by verification: e(σ1, base) · e(σ2, −g~)
pub open spec fn ps_pairing_ok(s1: G1Projective, s2: G1Projective, base: G2Projective, g2: G2Projective) -> bool {
    pair2(s1, base, s2, g_neg(g2)) == gt_one()
}

/// the verification relation, in the form the code evaluates it
pub open spec fn ps_valid(g2: G2Projective, x2: G2Projective, y2s: Seq<G2Projective>, m: Seq<Scalar>, s1: G1Projective, s2: G1Projective) -> bool {
    s1 != g_zero::<G1Projective>() && ps_pairing_ok(s1, s2, ps_base(x2, y2s, m), g2)
}

/// well-formed key pair: all secret scalars non-zero, generators non-identity, and the G1 and G2 parts
/// of the public key share their discrete logarithms
pub open spec fn ps_key_ok(g1: G1Projective, g2: G2Projective, x: Scalar, ys: Seq<Scalar>, x1: G1Projective,
                           y1s: Seq<G1Projective>, x2: G2Projective, y2s: Seq<G2Projective>) -> bool {
    &&& g1 != g_zero::<G1Projective>()
    &&& g2 != g_zero::<G2Projective>()
    &&& x != s_zero()
    &&& x1 == g_mul(g1, x)
    &&& x2 == g_mul(g2, x)
    &&& y1s.len() == ys.len() && y2s.len() == ys.len()
    &&& forall|i: int| 0 <= i < ys.len() ==> ys[i] != s_zero() && #[trigger] y1s[i] == g_mul(g1, ys[i])
    &&& forall|i: int| 0 <= i < ys.len() ==> #[trigger] y2s[i] == g_mul(g2, ys[i])
}
