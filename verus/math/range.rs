// Base-128, 9-digit range constraints (pure mathematics; no repository code).

/// 128^j as a scalar, built the way a running product builds it
pub open spec fn upow(u: Scalar, j: nat) -> Scalar
    decreases j
{
    if j == 0 { s_one() } else { s_mul(upow(u, (j - 1) as nat), u) }
}

/// Σ_{j<k} u^j · z_j, built the way a running sum builds it
pub open spec fn wsum(u: Scalar, zs: Seq<Scalar>, k: nat) -> Scalar
    decreases k
{
    if k == 0 { s_zero() } else { s_add(wsum(u, zs, (k - 1) as nat), s_mul(upow(u, (k - 1) as nat), zs[k - 1])) }
}

pub open spec fn pow128(j: nat) -> int
    decreases j
{
    if j == 0 { 1 } else { 128 * pow128((j - 1) as nat) }
}
