// The scalar encoding is consistent with integer arithmetic (pure mathematics; no repository code).

pub proof fn lemma_s_int_neg(a: int)
    ensures s_int(-a) == s_neg(s_int(a)),
{
    ax_s_int_add(a, -a);
    ax_s_int_zero();
    lemma_s_neg_unique(s_int(a), s_int(-a));
}

/// enc(a) == ι(a) for every integer amount (both branches of the code's encoding)
pub proof fn lemma_enc_amount(a: int)
    ensures enc_amount(a) == s_int(a),
{
    if a < 0 {
        lemma_s_int_neg(-a);
        lemma_s_zero_add(s_neg(s_int(-a)));
    }
}

/// enc(balance) − enc(amount) == enc(balance − amount)  and  enc(balance) + enc(amount) == enc(balance + amount)
pub proof fn lemma_ledger_homomorphism(b: int, a: int)
    ensures
        s_sub(s_int(b), enc_amount(a)) == s_int(b - a),   // @ob ledger.customer-side-encoding-homomorphic [C17 C04 C02]
        s_add(s_int(b), enc_amount(a)) == s_int(b + a),   // @ob ledger.merchant-side-encoding-homomorphic [C17 C04 C02]
{
    lemma_enc_amount(a);
    lemma_s_int_neg(a);
    ax_s_int_add(b, -a);
    ax_s_int_add(b, a);
}

/// conservation: the payment moves value between the two balances and changes nothing else
pub proof fn lemma_conservation(c: int, m: int, a: int)
    ensures (c - a) + (m + a) == c + m,   // @ob ledger.conservation [C04]
{
}
