// Pedersen commitments over an abstract prime-order group (pure mathematics; no repository code).

/// Σ_i ts[i]·us[i]
pub open spec fn ip<G>(ts: Seq<G>, us: Seq<Scalar>) -> G {
    g_sum(Seq::new(ts.len(), |i: int| g_mul(ts[i], us[i])))
}

/// com(h, gs; m, r) = h·r + Σ gs[i]·m[i]
pub open spec fn com<G>(h: G, gs: Seq<G>, m: Seq<Scalar>, r: Scalar) -> G {
    g_add(g_mul(h, r), ip(gs, m))
}
