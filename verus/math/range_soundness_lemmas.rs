// Special-soundness algebra for the range link (pure mathematics; no repository code).
/// extraction commutes with the weighted sum: Σ u^j·extract(z_j, z2_j) == extract(Σ u^j z_j, Σ u^j z2_j)
pub proof fn lemma_wsum_extract(u: Scalar, z: Seq<Scalar>, z2: Seq<Scalar>, c: Scalar, c2: Scalar, k: nat)
    requires k <= z.len(), z.len() == z2.len(),
    ensures wsum(u, extract(z, z2, c, c2), k) == extract1(wsum(u, z, k), wsum(u, z2, k), c, c2),   // @ob range.extraction-commutes-with-the-weighted-sum [C13 C02]
    decreases k,
{
    let inv = s_inv(s_sub(c, c2));
    let w = extract(z, z2, c, c2);
    if k == 0 {
        lemma_s_sub_self(s_zero());
        lemma_s_mul_zero(inv);
    } else {
        let k1 = (k - 1) as nat;
        lemma_wsum_extract(u, z, z2, c, c2, k1);
        let p = upow(u, k1);
        let (a, a2) = (wsum(u, z, k1), wsum(u, z2, k1));
        let (b, b2) = (s_mul(p, z[k - 1]), s_mul(p, z2[k - 1]));
        // (a + b) − (a2 + b2) == (a − a2) + p·(z − z2)
        lemma_s_sub_pairs(a, b, a2, b2);
        lemma_s_distrib_sub(p, z[k - 1], z2[k - 1]);
        // inv·((a − a2) + p·d) == inv·(a − a2) + p·(inv·d)
        let d = s_sub(z[k - 1], z2[k - 1]);
        ax_s_distrib(inv, s_sub(a, a2), s_mul(p, d));
        ax_s_mul_assoc(inv, p, d);
        ax_s_mul_comm(inv, p);
        ax_s_mul_assoc(p, inv, d);
        assert(s_mul(inv, s_mul(p, d)) == s_mul(s_mul(inv, p), d));
        assert(s_mul(s_mul(p, inv), d) == s_mul(p, s_mul(inv, d)));
        assert(w[k - 1] == s_mul(inv, d));
    }
}
