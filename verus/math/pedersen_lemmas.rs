// Lemmas about Σ, inner products and Pedersen commitments (pure mathematics; no repository code).

pub open spec fn seq_gadd<G>(a: Seq<G>, b: Seq<G>) -> Seq<G> { Seq::new(a.len(), |i: int| g_add(a[i], b[i])) }
pub open spec fn seq_gscale<G>(a: Seq<G>, c: Scalar) -> Seq<G> { Seq::new(a.len(), |i: int| g_mul(a[i], c)) }
pub open spec fn seq_sadd(a: Seq<Scalar>, b: Seq<Scalar>) -> Seq<Scalar> { Seq::new(a.len(), |i: int| s_add(a[i], b[i])) }
pub open spec fn seq_ssub(a: Seq<Scalar>, b: Seq<Scalar>) -> Seq<Scalar> { Seq::new(a.len(), |i: int| s_sub(a[i], b[i])) }
/// c·m pointwise, in the operand order the code uses (challenge first)
pub open spec fn seq_sscale(c: Scalar, m: Seq<Scalar>) -> Seq<Scalar> { Seq::new(m.len(), |i: int| s_mul(c, m[i])) }
pub open spec fn ip_terms<G>(ts: Seq<G>, us: Seq<Scalar>) -> Seq<G> { Seq::new(ts.len(), |i: int| g_mul(ts[i], us[i])) }

pub proof fn lemma_g_sum_add<G>(a: Seq<G>, b: Seq<G>)
    requires a.len() == b.len(),
    ensures g_sum(seq_gadd(a, b)) == g_add(g_sum(a), g_sum(b)),
    decreases a.len(),
{
    if a.len() == 0 {
        ax_g_add_zero(g_zero::<G>());
    } else {
        let n = a.len() as int;
        let z = seq_gadd(a, b);
        let a1 = a.subrange(1, n);
        let b1 = b.subrange(1, n);
        assert(z.subrange(1, n) =~= seq_gadd(a1, b1));
        lemma_g_sum_add(a1, b1);
        lemma_g_add_interchange(a[0], b[0], g_sum(a1), g_sum(b1));
    }
}

pub proof fn lemma_g_sum_scale<G>(a: Seq<G>, c: Scalar)
    ensures g_sum(seq_gscale(a, c)) == g_mul(g_sum(a), c),
    decreases a.len(),
{
    if a.len() == 0 {
        lemma_g_mul_zero_point::<G>(c);
    } else {
        let n = a.len() as int;
        let a1 = a.subrange(1, n);
        assert(seq_gscale(a, c).subrange(1, n) =~= seq_gscale(a1, c));
        lemma_g_sum_scale(a1, c);
        ax_g_mul_add_point(a[0], g_sum(a1), c);
    }
}

/// ip(gs, m + m') == ip(gs, m) + ip(gs, m')
pub proof fn lemma_ip_add<G>(gs: Seq<G>, m: Seq<Scalar>, m2: Seq<Scalar>)
    requires gs.len() == m.len(), gs.len() == m2.len(),
    ensures ip(gs, seq_sadd(m, m2)) == g_add(ip(gs, m), ip(gs, m2)),
{
    let t1 = ip_terms(gs, m);
    let t2 = ip_terms(gs, m2);
    assert forall|i: int| 0 <= i < gs.len() implies #[trigger] ip_terms(gs, seq_sadd(m, m2))[i] == seq_gadd(t1, t2)[i] by {
        ax_g_mul_add_scalar(gs[i], m[i], m2[i]);
    }
    assert(ip_terms(gs, seq_sadd(m, m2)) =~= seq_gadd(t1, t2));
    lemma_g_sum_add(t1, t2);
}

/// ip(gs, c·m) == ip(gs, m)·c
pub proof fn lemma_ip_scale<G>(gs: Seq<G>, m: Seq<Scalar>, c: Scalar)
    requires gs.len() == m.len(),
    ensures ip(gs, seq_sscale(c, m)) == g_mul(ip(gs, m), c),
{
    let t = ip_terms(gs, m);
    assert forall|i: int| 0 <= i < gs.len() implies #[trigger] ip_terms(gs, seq_sscale(c, m))[i] == seq_gscale(t, c)[i] by {
        ax_g_mul_mul(gs[i], m[i], c);
        ax_s_mul_comm(m[i], c);
    }
    assert(ip_terms(gs, seq_sscale(c, m)) =~= seq_gscale(t, c));
    lemma_g_sum_scale(t, c);
}

/// homomorphism: com(m, r) + com(m', r') == com(m + m', r + r')
pub proof fn lemma_com_add<G>(h: G, gs: Seq<G>, m: Seq<Scalar>, r: Scalar, m2: Seq<Scalar>, r2: Scalar)
    requires gs.len() == m.len(), gs.len() == m2.len(),
    ensures g_add(com(h, gs, m, r), com(h, gs, m2, r2)) == com(h, gs, seq_sadd(m, m2), s_add(r, r2)),   // @ob pedersen.homomorphic [C09 C10 C11]
{
    lemma_ip_add(gs, m, m2);
    ax_g_mul_add_scalar(h, r, r2);
    lemma_g_add_interchange(g_mul(h, r), ip(gs, m), g_mul(h, r2), ip(gs, m2));
}

/// scaling: com(c·m, c·r) == com(m, r)·c
pub proof fn lemma_com_scale<G>(h: G, gs: Seq<G>, m: Seq<Scalar>, r: Scalar, c: Scalar)
    requires gs.len() == m.len(),
    ensures com(h, gs, seq_sscale(c, m), s_mul(c, r)) == g_mul(com(h, gs, m, r), c),   // @ob pedersen.scaling [C09 C10 C11]
{
    lemma_ip_scale(gs, m, c);
    ax_g_mul_mul(h, r, c);
    ax_s_mul_comm(r, c);
    ax_g_mul_add_point(g_mul(h, r), ip(gs, m), c);
}

/// changing slot i of the message from m[i] to x moves the inner product by gs[i]·(x − m[i])
pub proof fn lemma_ip_update<G>(gs: Seq<G>, m: Seq<Scalar>, i: int, x: Scalar)
    requires gs.len() == m.len(), 0 <= i < m.len(),
    ensures ip(gs, m.update(i, x)) == g_add(ip(gs, m), g_mul(gs[i], s_sub(x, m[i]))),
{
    // m.update(i, x) == m + delta, delta = (x − m[i]) at i, 0 elsewhere; ip(gs, delta) == gs[i]·(x − m[i])
    let d = s_sub(x, m[i]);
    let delta = Seq::new(m.len(), |j: int| if j == i { d } else { s_zero() });
    assert forall|j: int| 0 <= j < m.len() implies #[trigger] seq_sadd(m, delta)[j] == m.update(i, x)[j] by {
        if j == i {
            // m[i] + (x − m[i]) == x
            ax_s_add_comm(m[i], s_sub(x, m[i]));
            ax_s_add_assoc(x, s_neg(m[i]), m[i]);
            ax_s_add_comm(s_neg(m[i]), m[i]);
            ax_s_add_neg(m[i]);
            ax_s_add_zero(x);
        } else {
            ax_s_add_zero(m[j]);
        }
    }
    assert(seq_sadd(m, delta) =~= m.update(i, x));
    lemma_ip_add(gs, m, delta);
    lemma_ip_single(gs, delta, i, d);
}

/// the inner product with a vector that is d at slot i and 0 elsewhere is gs[i]·d
pub proof fn lemma_ip_single<G>(gs: Seq<G>, delta: Seq<Scalar>, i: int, d: Scalar)
    requires gs.len() == delta.len(), 0 <= i < delta.len(),
        forall|j: int| 0 <= j < delta.len() ==> delta[j] == (if j == i { d } else { s_zero() }),
    ensures ip(gs, delta) == g_mul(gs[i], d),
    decreases gs.len(),
{
    let n = gs.len() as int;
    let t = ip_terms(gs, delta);
    let gs1 = gs.subrange(1, n);
    let d1 = delta.subrange(1, n);
    assert(t.subrange(1, n) =~= ip_terms(gs1, d1));
    if i == 0 {
        lemma_g_sum_all_zero(gs1, d1);
        ax_g_add_zero(g_mul(gs[0], d));
    } else {
        lemma_ip_single(gs1, d1, i - 1, d);
        lemma_g_mul_zero_scalar(gs[0]);
        lemma_g_zero_add(g_mul(gs[i], d));
    }
}

pub proof fn lemma_g_sum_all_zero<G>(gs: Seq<G>, z: Seq<Scalar>)
    requires gs.len() == z.len(), forall|j: int| 0 <= j < z.len() ==> z[j] == s_zero(),
    ensures ip(gs, z) == g_zero::<G>(),
    decreases gs.len(),
{
    if gs.len() > 0 {
        let n = gs.len() as int;
        assert(ip_terms(gs, z).subrange(1, n) =~= ip_terms(gs.subrange(1, n), z.subrange(1, n)));
        lemma_g_sum_all_zero(gs.subrange(1, n), z.subrange(1, n));
        lemma_g_mul_zero_scalar(gs[0]);
        ax_g_add_zero(g_zero::<G>());
    }
}

/// Perturbation: an opening that differs from the committed one in exactly one message coordinate is
/// rejected, provided the generator of that coordinate is not the identity.
pub proof fn lemma_com_single_coordinate<G>(h: G, gs: Seq<G>, m: Seq<Scalar>, r: Scalar, i: int, x: Scalar)
    requires gs.len() == m.len(), 0 <= i < m.len(), gs[i] != g_zero::<G>(), x != m[i],
    ensures com(h, gs, m.update(i, x), r) != com(h, gs, m, r),   // @ob pedersen.single-coordinate-perturbation-rejected [C09 C11]
{
    if com(h, gs, m.update(i, x), r) == com(h, gs, m, r) {
        lemma_ip_update(gs, m, i, x);
        lemma_g_cancel_left(g_mul(h, r), ip(gs, m.update(i, x)), ip(gs, m));
        // ip + gs[i]·d == ip == ip + 0
        ax_g_add_zero(ip(gs, m));
        lemma_g_cancel_left(ip(gs, m), g_mul(gs[i], s_sub(x, m[i])), g_zero::<G>());
        ax_g_prime_order(gs[i], s_sub(x, m[i]));
        lemma_s_sub_zero(x, m[i]);
    }
}

/// Perturbation of the blinding factor alone is rejected when h is not the identity.
pub proof fn lemma_com_blinding_factor<G>(h: G, gs: Seq<G>, m: Seq<Scalar>, r: Scalar, r2: Scalar)
    requires h != g_zero::<G>(), r != r2,
    ensures com(h, gs, m, r2) != com(h, gs, m, r),   // @ob pedersen.blinding-factor-perturbation-rejected [C09 C11]
{
    if com(h, gs, m, r2) == com(h, gs, m, r) {
        lemma_g_cancel_right(ip(gs, m), g_mul(h, r2), g_mul(h, r));
        // h·r2 − h·r == h·(r2 − r) == 0
        lemma_g_mul_neg_scalar(h, r);
        ax_g_mul_add_scalar(h, r2, s_neg(r));
        ax_g_add_neg(g_mul(h, r));
        ax_g_prime_order(h, s_sub(r2, r));
        lemma_s_sub_zero(r2, r);
    }
}
