// Lemmas about the Schnorr relation  com(z; z_r) == T + c·C  (pure mathematics; no repository code).

/// honest responses z_i = c·m_i + s_i as a sequence
pub open spec fn resp_seq(c: Scalar, m: Seq<Scalar>, s: Seq<Scalar>) -> Seq<Scalar> { Seq::new(m.len(), |i: int| resp(c, m[i], s[i])) }

/// Completeness: honest responses to any challenge satisfy the verifier's equation.
pub proof fn lemma_schnorr_complete<G>(h: G, gs: Seq<G>, m: Seq<Scalar>, r: Scalar, s: Seq<Scalar>, s_r: Scalar, c: Scalar)
    requires gs.len() == m.len(), gs.len() == s.len(),
    ensures schnorr_accept(h, gs, com(h, gs, m, r), com(h, gs, s, s_r), resp(c, r, s_r), resp_seq(c, m, s), c),   // @ob schnorr.complete [C10 C04]
{
    assert(resp_seq(c, m, s) =~= seq_sadd(seq_sscale(c, m), s));
    lemma_com_add(h, gs, seq_sscale(c, m), s_mul(c, r), s, s_r);
    lemma_com_scale(h, gs, m, r, c);
    ax_g_add_comm(g_mul(com(h, gs, m, r), c), com(h, gs, s, s_r));
}

/// Two challenges: the same (C, T, z, z_r) accepted under two different challenges forces C to be the identity.
pub proof fn lemma_schnorr_two_challenges<G>(h: G, gs: Seq<G>, c_: G, t_: G, z_r: Scalar, z: Seq<Scalar>, c: Scalar, c2: Scalar)
    requires schnorr_accept(h, gs, c_, t_, z_r, z, c), schnorr_accept(h, gs, c_, t_, z_r, z, c2), c != c2,
    ensures c_ == g_zero::<G>(),   // @ob schnorr.wrong-challenge-rejected [C11 C06]
{
    lemma_g_cancel_left(t_, g_mul(c_, c), g_mul(c_, c2));
    // C·c − C·c2 == C·(c − c2) == 0
    lemma_g_mul_neg_scalar(c_, c2);
    ax_g_mul_add_scalar(c_, c, s_neg(c2));
    ax_g_add_neg(g_mul(c_, c2));
    ax_g_prime_order(c_, s_sub(c, c2));
    if s_sub(c, c2) == s_zero() {
        lemma_s_sub_zero(c, c2);
    }
}

/// Perturbing the scalar commitment T of an accepted proof makes it reject.
pub proof fn lemma_schnorr_perturb_t<G>(h: G, gs: Seq<G>, c_: G, t_: G, t2: G, z_r: Scalar, z: Seq<Scalar>, c: Scalar)
    requires schnorr_accept(h, gs, c_, t_, z_r, z, c), t2 != t_,
    ensures !schnorr_accept(h, gs, c_, t2, z_r, z, c),   // @ob schnorr.perturbed-scalar-commitment-rejected [C11]
{
    if schnorr_accept(h, gs, c_, t2, z_r, z, c) {
        lemma_g_cancel_right(g_mul(c_, c), t_, t2);
    }
}

/// Perturbing the commitment C of an accepted proof makes it reject, unless the challenge is zero.
pub proof fn lemma_schnorr_perturb_c<G>(h: G, gs: Seq<G>, c_: G, c2_: G, t_: G, z_r: Scalar, z: Seq<Scalar>, c: Scalar)
    requires schnorr_accept(h, gs, c_, t_, z_r, z, c), c2_ != c_, c != s_zero(),
    ensures !schnorr_accept(h, gs, c2_, t_, z_r, z, c),   // @ob schnorr.perturbed-commitment-rejected [C11]
{
    if schnorr_accept(h, gs, c2_, t_, z_r, z, c) {
        lemma_g_cancel_left(t_, g_mul(c_, c), g_mul(c2_, c));
        // (C − C')·c == 0
        lemma_g_mul_neg_point(c2_, c);
        ax_g_mul_add_point(c_, g_neg(c2_), c);
        ax_g_add_neg(g_mul(c2_, c));
        ax_g_prime_order(g_sub(c_, c2_), c);
        lemma_g_sub_zero(c_, c2_);
    }
}

/// (−P)·a == −(P·a)
pub proof fn lemma_g_mul_neg_point<G>(p: G, a: Scalar)
    ensures g_mul(g_neg(p), a) == g_neg(g_mul(p, a)),
{
    ax_g_mul_add_point(p, g_neg(p), a);
    ax_g_add_neg(p);
    lemma_g_mul_zero_point::<G>(a);
    lemma_g_neg_unique(g_mul(p, a), g_mul(g_neg(p), a));
}

/// Perturbing one message response scalar of an accepted proof makes it reject (generator not the identity).
pub proof fn lemma_schnorr_perturb_z<G>(h: G, gs: Seq<G>, c_: G, t_: G, z_r: Scalar, z: Seq<Scalar>, c: Scalar, i: int, x: Scalar)
    requires schnorr_accept(h, gs, c_, t_, z_r, z, c), gs.len() == z.len(), 0 <= i < z.len(), gs[i] != g_zero::<G>(), x != z[i],
    ensures !schnorr_accept(h, gs, c_, t_, z_r, z.update(i, x), c),   // @ob schnorr.perturbed-response-rejected [C11]
{
    lemma_com_single_coordinate(h, gs, z, z_r, i, x);
}

/// Perturbing the blinding-factor response of an accepted proof makes it reject (h not the identity).
pub proof fn lemma_schnorr_perturb_zr<G>(h: G, gs: Seq<G>, c_: G, t_: G, z_r: Scalar, z_r2: Scalar, z: Seq<Scalar>, c: Scalar)
    requires schnorr_accept(h, gs, c_, t_, z_r, z, c), h != g_zero::<G>(), z_r2 != z_r,
    ensures !schnorr_accept(h, gs, c_, t_, z_r2, z, c),   // @ob schnorr.perturbed-bf-response-rejected [C11]
{
    lemma_com_blinding_factor(h, gs, z, z_r, z_r2);
}

/// a + (b − a) == b
pub proof fn lemma_s_add_sub_cancel(a: Scalar, b: Scalar)
    ensures s_add(a, s_sub(b, a)) == b,
{
    ax_s_add_comm(a, s_sub(b, a));
    ax_s_add_assoc(b, s_neg(a), a);
    ax_s_add_comm(s_neg(a), a);
    ax_s_add_neg(a);
    ax_s_add_zero(b);
}

/// com(z, zr) − com(z2, zr2) == com(z − z2, zr − zr2)
pub proof fn lemma_com_sub<G>(h: G, gs: Seq<G>, z: Seq<Scalar>, zr: Scalar, z2: Seq<Scalar>, zr2: Scalar)
    requires gs.len() == z.len(), gs.len() == z2.len(),
    ensures g_sub(com(h, gs, z, zr), com(h, gs, z2, zr2)) == com(h, gs, seq_ssub(z, z2), s_sub(zr, zr2)),
{
    let d = seq_ssub(z, z2);
    assert forall|i: int| 0 <= i < z.len() implies #[trigger] seq_sadd(z2, d)[i] == z[i] by {
        lemma_s_add_sub_cancel(z2[i], z[i]);
    }
    assert(seq_sadd(z2, d) =~= z);
    lemma_s_add_sub_cancel(zr2, zr);
    lemma_com_add(h, gs, z2, zr2, d, s_sub(zr, zr2));
    // com(z) == com(z2) + com(d)  ==>  com(z) − com(z2) == com(d)
    let a = com(h, gs, z2, zr2);
    let b = com(h, gs, d, s_sub(zr, zr2));
    ax_g_add_comm(a, b);
    lemma_g_add_sub(b, a);
}

/// the witness extracted from two accepting transcripts
pub open spec fn extract(z: Seq<Scalar>, z2: Seq<Scalar>, c: Scalar, c2: Scalar) -> Seq<Scalar> {
    seq_sscale(s_inv(s_sub(c, c2)), seq_ssub(z, z2))
}
pub open spec fn extract1(z: Scalar, z2: Scalar, c: Scalar, c2: Scalar) -> Scalar {
    s_mul(s_inv(s_sub(c, c2)), s_sub(z, z2))
}

/// Special soundness: two accepting transcripts with the same first message (C, T) and different
/// challenges yield an opening of C.
pub proof fn lemma_schnorr_special_soundness<G>(h: G, gs: Seq<G>, c_: G, t_: G, zr: Scalar, z: Seq<Scalar>, c: Scalar, zr2: Scalar, z2: Seq<Scalar>, c2: Scalar)
    requires
        schnorr_accept(h, gs, c_, t_, zr, z, c), schnorr_accept(h, gs, c_, t_, zr2, z2, c2), c != c2,
        gs.len() == z.len(), gs.len() == z2.len(),
    ensures c_ == com(h, gs, extract(z, z2, c, c2), extract1(zr, zr2, c, c2)),   // @ob schnorr.special-soundness [C01 C02 C08 C11]
{
    let dc = s_sub(c, c2);
    let inv = s_inv(dc);
    lemma_s_sub_nonzero(c, c2);
    // com(z) − com(z2) == (T + C·c) − (T + C·c2) == C·c − C·c2 == C·(c − c2)
    lemma_com_sub(h, gs, z, zr, z2, zr2);
    let a = g_mul(c_, c);
    let b = g_mul(c_, c2);
    // (T + a) − (T + b) == a − b
    lemma_g_neg_add(t_, b);
    lemma_g_add_interchange(t_, a, g_neg(t_), g_neg(b));
    ax_g_add_neg(t_);
    lemma_g_zero_add(g_add(a, g_neg(b)));
    lemma_g_mul_neg_scalar(c_, c2);
    ax_g_mul_add_scalar(c_, c, s_neg(c2));
    assert(g_sub(g_add(t_, a), g_add(t_, b)) == g_mul(c_, dc));
    // scale by (c − c2)^-1
    lemma_com_scale(h, gs, seq_ssub(z, z2), s_sub(zr, zr2), inv);
    ax_g_mul_mul(c_, dc, inv);
    ax_s_inv(dc);
    ax_g_mul_one(c_);
}

/// Constraint transfer: a response slot tied to a PUBLIC value v through a commitment scalar s that is
/// fixed before the challenge (z = c·v + s in both transcripts) extracts to exactly v.
pub proof fn lemma_extract_public_slot(z: Scalar, z2: Scalar, c: Scalar, c2: Scalar, v: Scalar, s: Scalar)
    requires z == resp(c, v, s), z2 == resp(c2, v, s), c != c2,
    ensures extract1(z, z2, c, c2) == v,   // @ob schnorr.public-value-slot-extracts-to-the-value [C01 C02]
{
    let dc = s_sub(c, c2);
    lemma_s_sub_nonzero(c, c2);
    // (c·v + s) − (c2·v + s) == c·v − c2·v == (c − c2)·v
    lemma_s_sub_common(s_mul(c, v), s_mul(c2, v), s);
    ax_s_mul_comm(c, v);
    ax_s_mul_comm(c2, v);
    lemma_s_distrib_sub(v, c, c2);
    ax_s_mul_comm(v, dc);
    assert(s_sub(z, z2) == s_mul(dc, v));
    // dc^-1 · (dc · v) == v
    ax_s_mul_assoc(s_inv(dc), dc, v);
    ax_s_inv(dc);
    ax_s_mul_comm(dc, s_inv(dc));
    ax_s_mul_comm(s_one(), v);
    ax_s_mul_one(v);
}

/// Constraint transfer: slots constrained to be equal in both transcripts extract to equal values.
pub proof fn lemma_extract_equal_slots(z: Scalar, z2: Scalar, y: Scalar, y2: Scalar, c: Scalar, c2: Scalar)
    requires z == y, z2 == y2,
    ensures extract1(z, z2, c, c2) == extract1(y, y2, c, c2),   // @ob schnorr.equal-slots-extract-equal [C01 C02]
{
}

/// −(a + b) == −a + −b
pub proof fn lemma_s_neg_add(a: Scalar, b: Scalar)
    ensures s_neg(s_add(a, b)) == s_add(s_neg(a), s_neg(b)),
{
    // (a + b) + (−a + −b) == (a + −a) + (b + −b) == 0
    ax_s_add_assoc(a, b, s_add(s_neg(a), s_neg(b)));
    ax_s_add_assoc(b, s_neg(a), s_neg(b));
    ax_s_add_comm(b, s_neg(a));
    ax_s_add_assoc(s_neg(a), b, s_neg(b));
    ax_s_add_neg(b);
    ax_s_add_zero(s_neg(a));
    ax_s_add_neg(a);
    assert(s_add(b, s_add(s_neg(a), s_neg(b))) == s_add(s_add(b, s_neg(a)), s_neg(b)));
    assert(s_add(s_add(s_neg(a), b), s_neg(b)) == s_add(s_neg(a), s_add(b, s_neg(b))));
    assert(s_add(s_add(a, b), s_add(s_neg(a), s_neg(b))) == s_zero());
    lemma_s_neg_unique(s_add(a, b), s_add(s_neg(a), s_neg(b)));
}

/// (a + b) − (a2 + b2) == (a − a2) + (b − b2)
pub proof fn lemma_s_sub_pairs(a: Scalar, b: Scalar, a2: Scalar, b2: Scalar)
    ensures s_sub(s_add(a, b), s_add(a2, b2)) == s_add(s_sub(a, a2), s_sub(b, b2)),
{
    lemma_s_neg_add(a2, b2);
    // (a + b) + (−a2 + −b2) == (a + −a2) + (b + −b2)
    ax_s_add_assoc(a, b, s_add(s_neg(a2), s_neg(b2)));
    ax_s_add_assoc(b, s_neg(a2), s_neg(b2));
    ax_s_add_comm(b, s_neg(a2));
    ax_s_add_assoc(s_neg(a2), b, s_neg(b2));
    ax_s_add_assoc(a, s_neg(a2), s_add(b, s_neg(b2)));
    assert(s_add(b, s_add(s_neg(a2), s_neg(b2))) == s_add(s_add(b, s_neg(a2)), s_neg(b2)));
    assert(s_add(s_add(s_neg(a2), b), s_neg(b2)) == s_add(s_neg(a2), s_add(b, s_neg(b2))));
}

/// Constraint transfer: a slot tied to another slot by a PUBLIC shift (z = y + c·a in both transcripts) extracts to
/// the other slot's value plus a.
pub proof fn lemma_extract_shifted_slot(z: Scalar, z2: Scalar, y: Scalar, y2: Scalar, c: Scalar, c2: Scalar, a: Scalar)
    requires z == s_add(y, s_mul(c, a)), z2 == s_add(y2, s_mul(c2, a)), c != c2,
    ensures extract1(z, z2, c, c2) == s_add(extract1(y, y2, c, c2), a),   // @ob schnorr.publicly-shifted-slot-extracts-to-the-shifted-value [C02]
{
    let dc = s_sub(c, c2);
    let inv = s_inv(dc);
    lemma_s_sub_nonzero(c, c2);
    // z − z2 == (y − y2) + (c·a − c2·a) == (y − y2) + (c − c2)·a
    lemma_s_sub_pairs(y, s_mul(c, a), y2, s_mul(c2, a));
    ax_s_mul_comm(c, a);
    ax_s_mul_comm(c2, a);
    lemma_s_distrib_sub(a, c, c2);
    ax_s_mul_comm(a, dc);
    assert(s_sub(z, z2) == s_add(s_sub(y, y2), s_mul(dc, a)));
    // inv·((y − y2) + dc·a) == inv·(y − y2) + (inv·dc)·a == extract1(y, y2) + a
    ax_s_distrib(inv, s_sub(y, y2), s_mul(dc, a));
    ax_s_mul_assoc(inv, dc, a);
    ax_s_inv(dc);
    ax_s_mul_comm(dc, inv);
    ax_s_mul_comm(s_one(), a);
    ax_s_mul_one(a);
}

/// the same with a subtraction: z = y − c·a
pub proof fn lemma_extract_shifted_slot_sub(z: Scalar, z2: Scalar, y: Scalar, y2: Scalar, c: Scalar, c2: Scalar, a: Scalar)
    requires z == s_sub(y, s_mul(c, a)), z2 == s_sub(y2, s_mul(c2, a)), c != c2,
    ensures extract1(z, z2, c, c2) == s_sub(extract1(y, y2, c, c2), a),   // @ob schnorr.publicly-shifted-slot-extracts-to-the-shifted-value-sub [C02]
{
    lemma_s_mul_neg(c, a);
    lemma_s_mul_neg(c2, a);
    lemma_extract_shifted_slot(z, z2, y, y2, c, c2, s_neg(a));
}
