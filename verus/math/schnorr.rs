// Schnorr proofs of knowledge of a Pedersen opening (pure mathematics; no repository code).

/// the verifier's equation: com(z; z_r) == T + c·C
pub open spec fn schnorr_accept<G>(h: G, gs: Seq<G>, c_: G, t_: G, z_r: Scalar, z: Seq<Scalar>, c: Scalar) -> bool {
    com(h, gs, z, z_r) == g_add(t_, g_mul(c_, c))
}

/// honest response: z = c·m + s
pub open spec fn resp(c: Scalar, m: Scalar, s: Scalar) -> Scalar { s_add(s_mul(c, m), s) }
