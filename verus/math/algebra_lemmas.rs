// Elementary consequences of the algebra axioms (pure mathematics; no repository code).

// ---- groups ------------------------------------------------------------------------------------------
pub proof fn lemma_g_zero_add<G>(a: G)
    ensures g_add(g_zero::<G>(), a) == a,
{
    ax_g_add_comm(g_zero::<G>(), a);
    ax_g_add_zero(a);
}

pub proof fn lemma_g_cancel_left<G>(a: G, b: G, c: G)
    requires g_add(a, b) == g_add(a, c),
    ensures b == c,
{
    let na = g_neg(a);
    ax_g_add_assoc(na, a, b);
    ax_g_add_assoc(na, a, c);
    ax_g_add_comm(na, a);
    ax_g_add_neg(a);
    lemma_g_zero_add(b);
    lemma_g_zero_add(c);
    assert(g_add(g_add(na, a), b) == g_add(na, g_add(a, b)));
    assert(g_add(g_add(na, a), c) == g_add(na, g_add(a, c)));
}

pub proof fn lemma_g_cancel_right<G>(a: G, b: G, c: G)
    requires g_add(b, a) == g_add(c, a),
    ensures b == c,
{
    ax_g_add_comm(b, a);
    ax_g_add_comm(c, a);
    lemma_g_cancel_left(a, b, c);
}

pub proof fn lemma_g_mul_zero_scalar<G>(p: G)
    ensures g_mul(p, s_zero()) == g_zero::<G>(),
{
    let x = g_mul(p, s_zero());
    ax_s_add_zero(s_zero());
    ax_g_mul_add_scalar(p, s_zero(), s_zero());
    ax_g_add_zero(x);
    assert(g_add(x, x) == g_add(x, g_zero::<G>()));
    lemma_g_cancel_left(x, x, g_zero::<G>());
}

pub proof fn lemma_g_mul_zero_point<G>(a: Scalar)
    ensures g_mul(g_zero::<G>(), a) == g_zero::<G>(),
{
    let z = g_zero::<G>();
    let x = g_mul(z, a);
    ax_g_add_zero(z);
    ax_g_mul_add_point(z, z, a);
    ax_g_add_zero(x);
    assert(g_add(x, x) == g_add(x, z));
    lemma_g_cancel_left(x, x, z);
}

pub proof fn lemma_g_neg_unique<G>(x: G, y: G)
    requires g_add(x, y) == g_zero::<G>(),
    ensures y == g_neg(x),
{
    ax_g_add_neg(x);
    lemma_g_cancel_left(x, y, g_neg(x));
}

pub proof fn lemma_g_mul_neg_scalar<G>(p: G, a: Scalar)
    ensures g_mul(p, s_neg(a)) == g_neg(g_mul(p, a)),
{
    ax_g_mul_add_scalar(p, a, s_neg(a));
    ax_s_add_neg(a);
    lemma_g_mul_zero_scalar(p);
    lemma_g_neg_unique(g_mul(p, a), g_mul(p, s_neg(a)));
}

/// a - b == 0  ==>  a == b
pub proof fn lemma_g_sub_zero<G>(a: G, b: G)
    requires g_sub(a, b) == g_zero::<G>(),
    ensures a == b,
{
    // a + (-b) == 0 == b + (-b)
    ax_g_add_neg(b);
    lemma_g_cancel_right(g_neg(b), a, b);
}

pub proof fn lemma_g_sub_self<G>(a: G)
    ensures g_sub(a, a) == g_zero::<G>(),
{
    ax_g_add_neg(a);
}

/// (a + b) - b == a
pub proof fn lemma_g_add_sub<G>(a: G, b: G)
    ensures g_sub(g_add(a, b), b) == a,
{
    ax_g_add_assoc(a, b, g_neg(b));
    ax_g_add_neg(b);
    ax_g_add_zero(a);
}

/// -(a + b) == -a + -b
pub proof fn lemma_g_neg_add<G>(a: G, b: G)
    ensures g_neg(g_add(a, b)) == g_add(g_neg(a), g_neg(b)),
{
    // (a+b) + (-a + -b) == 0
    let na = g_neg(a);
    let nb = g_neg(b);
    ax_g_add_assoc(a, b, g_add(na, nb));
    ax_g_add_comm(na, nb);
    ax_g_add_assoc(b, nb, na);
    ax_g_add_neg(b);
    lemma_g_zero_add(na);
    ax_g_add_neg(a);
    assert(g_add(b, g_add(nb, na)) == g_add(g_add(b, nb), na));
    assert(g_add(g_add(a, b), g_add(na, nb)) == g_zero::<G>());
    lemma_g_neg_unique(g_add(a, b), g_add(na, nb));
}

/// (a + b) + (c + d) == (a + c) + (b + d)
pub proof fn lemma_g_add_interchange<G>(a: G, b: G, c: G, d: G)
    ensures g_add(g_add(a, b), g_add(c, d)) == g_add(g_add(a, c), g_add(b, d)),
{
    ax_g_add_assoc(a, b, g_add(c, d));
    ax_g_add_assoc(b, c, d);
    ax_g_add_comm(b, c);
    ax_g_add_assoc(c, b, d);
    ax_g_add_assoc(a, c, g_add(b, d));
    assert(g_add(b, g_add(c, d)) == g_add(g_add(b, c), d));
    assert(g_add(g_add(c, b), d) == g_add(c, g_add(b, d)));
}

// ---- scalars -----------------------------------------------------------------------------------------
pub proof fn lemma_s_zero_add(a: Scalar)
    ensures s_add(s_zero(), a) == a,
{
    ax_s_add_comm(s_zero(), a);
    ax_s_add_zero(a);
}

pub proof fn lemma_s_cancel_left(a: Scalar, b: Scalar, c: Scalar)
    requires s_add(a, b) == s_add(a, c),
    ensures b == c,
{
    let na = s_neg(a);
    ax_s_add_assoc(na, a, b);
    ax_s_add_assoc(na, a, c);
    ax_s_add_comm(na, a);
    ax_s_add_neg(a);
    lemma_s_zero_add(b);
    lemma_s_zero_add(c);
    assert(s_add(s_add(na, a), b) == s_add(na, s_add(a, b)));
    assert(s_add(s_add(na, a), c) == s_add(na, s_add(a, c)));
}

pub proof fn lemma_s_mul_zero(a: Scalar)
    ensures s_mul(a, s_zero()) == s_zero(), s_mul(s_zero(), a) == s_zero(),
{
    let x = s_mul(a, s_zero());
    ax_s_add_zero(s_zero());
    ax_s_distrib(a, s_zero(), s_zero());
    ax_s_add_zero(x);
    assert(s_add(x, x) == s_add(x, s_zero()));
    lemma_s_cancel_left(x, x, s_zero());
    ax_s_mul_comm(a, s_zero());
}

/// a - b == 0  ==>  a == b
pub proof fn lemma_s_sub_zero(a: Scalar, b: Scalar)
    requires s_sub(a, b) == s_zero(),
    ensures a == b,
{
    ax_s_add_neg(b);
    ax_s_add_comm(a, s_neg(b));
    ax_s_add_comm(b, s_neg(b));
    lemma_s_cancel_left(s_neg(b), a, b);
}

pub proof fn lemma_s_sub_self(a: Scalar)
    ensures s_sub(a, a) == s_zero(),
{
    ax_s_add_neg(a);
}

/// a != b  ==>  a - b != 0
pub proof fn lemma_s_sub_nonzero(a: Scalar, b: Scalar)
    requires a != b,
    ensures s_sub(a, b) != s_zero(),
{
    if s_sub(a, b) == s_zero() {
        lemma_s_sub_zero(a, b);
    }
}

/// no zero divisors: a·b == 0 ==> a == 0 or b == 0
pub proof fn lemma_s_no_zero_divisors(a: Scalar, b: Scalar)
    requires s_mul(a, b) == s_zero(),
    ensures a == s_zero() || b == s_zero(),
{
    if a != s_zero() {
        // b == (a^-1 · a) · b == a^-1 · (a·b) == a^-1 · 0 == 0
        let ia = s_inv(a);
        ax_s_inv(a);
        ax_s_mul_comm(a, ia);
        ax_s_mul_assoc(ia, a, b);
        lemma_s_mul_zero(ia);
        ax_s_mul_comm(s_one(), b);
        ax_s_mul_one(b);
        assert(s_mul(s_mul(ia, a), b) == s_mul(ia, s_mul(a, b)));
        assert(s_mul(s_one(), b) == b);
    }
}

pub proof fn lemma_s_neg_unique(x: Scalar, y: Scalar)
    requires s_add(x, y) == s_zero(),
    ensures y == s_neg(x),
{
    ax_s_add_neg(x);
    lemma_s_cancel_left(x, y, s_neg(x));
}

/// a·(-b) == -(a·b)
pub proof fn lemma_s_mul_neg(a: Scalar, b: Scalar)
    ensures s_mul(a, s_neg(b)) == s_neg(s_mul(a, b)),
{
    ax_s_distrib(a, b, s_neg(b));
    ax_s_add_neg(b);
    lemma_s_mul_zero(a);
    lemma_s_neg_unique(s_mul(a, b), s_mul(a, s_neg(b)));
}

/// a·(b - c) == a·b - a·c
pub proof fn lemma_s_distrib_sub(a: Scalar, b: Scalar, c: Scalar)
    ensures s_mul(a, s_sub(b, c)) == s_sub(s_mul(a, b), s_mul(a, c)),
{
    ax_s_distrib(a, b, s_neg(c));
    lemma_s_mul_neg(a, c);
}

/// (a + b) - b == a
pub proof fn lemma_s_add_sub(a: Scalar, b: Scalar)
    ensures s_sub(s_add(a, b), b) == a,
{
    ax_s_add_assoc(a, b, s_neg(b));
    ax_s_add_neg(b);
    ax_s_add_zero(a);
}

/// (a + s) - (b + s) == a - b
pub proof fn lemma_s_sub_common(a: Scalar, b: Scalar, s: Scalar)
    ensures s_sub(s_add(a, s), s_add(b, s)) == s_sub(a, b),
{
    // -(b+s) == -b + -s
    let nb = s_neg(b);
    let ns = s_neg(s);
    ax_s_add_assoc(b, s, s_add(nb, ns));
    ax_s_add_comm(nb, ns);
    ax_s_add_assoc(s, ns, nb);
    ax_s_add_neg(s);
    lemma_s_zero_add(nb);
    ax_s_add_neg(b);
    assert(s_add(s, s_add(ns, nb)) == s_add(s_add(s, ns), nb));
    assert(s_add(s_add(b, s), s_add(nb, ns)) == s_zero());
    lemma_s_neg_unique(s_add(b, s), s_add(nb, ns));
    // (a+s) + (-b + -s) == (a + -b) + (s + -s)
    ax_s_add_assoc(a, s, s_add(nb, ns));
    ax_s_add_assoc(s, nb, ns);
    ax_s_add_comm(s, nb);
    ax_s_add_assoc(nb, s, ns);
    ax_s_add_zero(nb);
    ax_s_add_assoc(a, nb, s_zero());
    ax_s_add_zero(s_add(a, nb));
    assert(s_add(s, s_add(nb, ns)) == s_add(s_add(s, nb), ns));
    assert(s_add(s_add(nb, s), ns) == s_add(nb, s_add(s, ns)));
    assert(s_add(s, s_add(nb, ns)) == nb);
}

// ---- pairing -----------------------------------------------------------------------------------------
pub proof fn lemma_gt_one_mul(a: Gt)
    ensures gt_mul(gt_one(), a) == a,
{
    ax_gt_mul_comm(gt_one(), a);
    ax_gt_mul_one(a);
}

pub proof fn lemma_gt_cancel_left(a: Gt, b: Gt, c: Gt)
    requires gt_mul(a, b) == gt_mul(a, c),
    ensures b == c,
{
    let ia = gt_inv(a);
    ax_gt_mul_assoc(ia, a, b);
    ax_gt_mul_assoc(ia, a, c);
    ax_gt_mul_comm(ia, a);
    ax_gt_mul_inv(a);
    lemma_gt_one_mul(b);
    lemma_gt_one_mul(c);
    assert(gt_mul(gt_mul(ia, a), b) == gt_mul(ia, gt_mul(a, b)));
    assert(gt_mul(gt_mul(ia, a), c) == gt_mul(ia, gt_mul(a, c)));
}

pub proof fn lemma_pair_zero_right(a: G1Projective)
    ensures pair(a, g_zero::<G2Projective>()) == gt_one(),
{
    let z = g_zero::<G2Projective>();
    let x = pair(a, z);
    ax_g_add_zero(z);
    ax_pair_add_right(a, z, z);
    ax_gt_mul_one(x);
    assert(gt_mul(x, x) == gt_mul(x, gt_one()));
    lemma_gt_cancel_left(x, x, gt_one());
}

pub proof fn lemma_pair_neg_right(a: G1Projective, b: G2Projective)
    ensures gt_mul(pair(a, b), pair(a, g_neg(b))) == gt_one(),
{
    ax_pair_add_right(a, b, g_neg(b));
    ax_g_add_neg(b);
    lemma_pair_zero_right(a);
}

/// the verification equation in the form the property states it:
/// e(s1, base)·e(s2, -g2) == 1   <==>   e(s1, base) == e(s2, g2)
pub proof fn lemma_pairing_check_form(s1: G1Projective, base: G2Projective, s2: G1Projective, g2: G2Projective)
    ensures (pair2(s1, base, s2, g_neg(g2)) == gt_one()) <==> (pair(s1, base) == pair(s2, g2)),
{
    lemma_pair_neg_right(s2, g2);
    ax_gt_mul_comm(pair(s2, g2), pair(s2, g_neg(g2)));
    if pair(s1, base) == pair(s2, g2) {
        ax_gt_mul_comm(pair(s1, base), pair(s2, g_neg(g2)));
    }
    if pair2(s1, base, s2, g_neg(g2)) == gt_one() {
        // e(s1,base)·x == 1 == e(s2,g2)·x  with x = e(s2,-g2)
        let x = pair(s2, g_neg(g2));
        ax_gt_mul_comm(pair(s1, base), x);
        ax_gt_mul_comm(pair(s2, g2), x);
        lemma_gt_cancel_left(x, pair(s1, base), pair(s2, g2));
    }
}
