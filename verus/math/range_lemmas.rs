// Lemmas about base-128, 9-digit decompositions (pure mathematics; no repository code).

/// Σ_{j<k} d_j·128^j over the integers
pub open spec fn int_wsum(ds: Seq<int>, k: nat) -> int
    decreases k
{
    if k == 0 { 0 } else { int_wsum(ds, (k - 1) as nat) + ds[k - 1] * pow128((k - 1) as nat) }
}

pub proof fn lemma_pow128_values()
    ensures
        pow128(0) == 1, pow128(1) == 128, pow128(2) == 16384, pow128(3) == 2097152, pow128(4) == 268435456,
        pow128(5) == 34359738368, pow128(6) == 4398046511104, pow128(7) == 562949953421312,
        pow128(8) == 72057594037927936, pow128(9) == 9223372036854775808,
{
    reveal_with_fuel(pow128, 11);
}

/// Nine digits below 128 represent a value in [0, 2^63); the largest is 2^63 - 1.
pub proof fn lemma_nine_digits_bound(ds: Seq<int>)
    requires ds.len() == 9, forall|j: int| 0 <= j < 9 ==> 0 <= #[trigger] ds[j] < 128,
    ensures 0 <= int_wsum(ds, 9) <= 0x7fff_ffff_ffff_ffff,   // @ob range.nine-base128-digits-stay-below-2^63 [C13 C02]
{
    lemma_pow128_values();
    reveal_with_fuel(int_wsum, 10);
    assert(0 <= ds[0] < 128 && 0 <= ds[1] < 128 && 0 <= ds[2] < 128 && 0 <= ds[3] < 128 && 0 <= ds[4] < 128
        && 0 <= ds[5] < 128 && 0 <= ds[6] < 128 && 0 <= ds[7] < 128 && 0 <= ds[8] < 128);
}

/// the all-maximal digit string is exactly 2^63 - 1
pub proof fn lemma_max_digits()
    ensures int_wsum(Seq::new(9, |j: int| 127int), 9) == 0x7fff_ffff_ffff_ffff,   // @ob range.largest-representable-is-2^63-1 [C13]
{
    lemma_pow128_values();
    reveal_with_fuel(int_wsum, 10);
}

/// the digits produced by repeated `% 128`, `/ 128`
pub open spec fn digits_of(v: int) -> Seq<int> { Seq::new(9, |j: int| (v / pow128(j as nat)) % 128) }

pub proof fn lemma_pow128_pos(k: nat)
    ensures pow128(k) > 0,
    decreases k,
{
    if k > 0 { lemma_pow128_pos((k - 1) as nat); }
}

/// the first k digits of v represent v mod 128^k
pub proof fn lemma_decomposition_prefix(v: int, k: nat)
    requires 0 <= v, k <= 9,
    ensures int_wsum(digits_of(v), k) == v % pow128(k),
    decreases k,
{
    if k == 0 {
        assert(pow128(0) == 1);
    } else {
        let k1 = (k - 1) as nat;
        lemma_decomposition_prefix(v, k1);
        lemma_pow128_pos(k1);
        vstd::arithmetic::div_mod::lemma_mod_breakdown(v, pow128(k1), 128);
        assert(pow128(k) == 128 * pow128(k1));
        assert(pow128(k1) * 128 == 128 * pow128(k1)) by(nonlinear_arith);
        assert(digits_of(v)[k - 1] == (v / pow128(k1)) % 128);
        assert(pow128(k1) * ((v / pow128(k1)) % 128) == ((v / pow128(k1)) % 128) * pow128(k1)) by(nonlinear_arith);
    }
}

/// Every v in [0, 2^63) is reproduced by its nine digits, and each digit is below 128.
pub proof fn lemma_decomposition(v: int)
    requires 0 <= v <= 0x7fff_ffff_ffff_ffff,
    ensures
        int_wsum(digits_of(v), 9) == v,   // @ob range.decomposition-is-exact [C13 C10]
        forall|j: int| 0 <= j < 9 ==> 0 <= #[trigger] digits_of(v)[j] < 128,
{
    lemma_pow128_values();
    lemma_decomposition_prefix(v, 9);
    assert(v % 9223372036854775808 == v);
}

/// ι maps the integer weighted sum to the scalar weighted sum the verifier computes.
pub proof fn lemma_wsum_int(ds: Seq<int>, k: nat)
    requires k <= ds.len(),
    ensures
        upow(s_int(128), k) == s_int(pow128(k)),
        wsum(s_int(128), Seq::new(ds.len(), |j: int| s_int(ds[j])), k) == s_int(int_wsum(ds, k)),   // @ob range.scalar-sum-is-the-image-of-the-integer-sum [C13 C10]
    decreases k,
{
    if k == 0 {
        ax_s_int_one();
        ax_s_int_zero();
    } else {
        let k1 = (k - 1) as nat;
        lemma_wsum_int(ds, k1);
        ax_s_int_mul(pow128(k1), 128);
        ax_s_int_mul(pow128(k1), ds[k - 1]);
        ax_s_int_add(int_wsum(ds, k1), ds[k - 1] * pow128(k1));
        assert(pow128(k) == 128 * pow128(k1));
        assert(pow128(k1) * 128 == 128 * pow128(k1)) by(nonlinear_arith);
        assert(pow128(k1) * ds[k - 1] == ds[k - 1] * pow128(k1)) by(nonlinear_arith);
    }
}

/// range link: the weighted sum of honest digit responses is the honest response for the weighted sums
pub proof fn lemma_wsum_linear(u: Scalar, c: Scalar, d: Seq<Scalar>, s: Seq<Scalar>, k: nat)
    requires k <= d.len(), d.len() == s.len(),
    ensures wsum(u, Seq::new(d.len(), |j: int| resp(c, d[j], s[j])), k) == resp(c, wsum(u, d, k), wsum(u, s, k)),   // @ob pattern.range-link [C10 C13 C02 C04]
    decreases k,
{
    let z = Seq::new(d.len(), |j: int| resp(c, d[j], s[j]));
    if k == 0 {
        lemma_s_mul_zero(c);
        ax_s_add_zero(s_zero());
    } else {
        let k1 = (k - 1) as nat;
        lemma_wsum_linear(u, c, d, s, k1);
        let p = upow(u, k1);
        // p·(c·d + s) == c·(p·d) + p·s
        ax_s_distrib(p, s_mul(c, d[k - 1]), s[k - 1]);
        ax_s_mul_assoc(p, c, d[k - 1]);
        ax_s_mul_comm(p, c);
        ax_s_mul_assoc(c, p, d[k - 1]);
        assert(s_mul(p, s_mul(c, d[k - 1])) == s_mul(s_mul(p, c), d[k - 1]));
        assert(s_mul(s_mul(c, p), d[k - 1]) == s_mul(c, s_mul(p, d[k - 1])));
        // (c·W + S) + (c·x + y) == c·(W + x) + (S + y)
        let w = wsum(u, d, k1);
        let sw = wsum(u, s, k1);
        let x = s_mul(p, d[k - 1]);
        let y = s_mul(p, s[k - 1]);
        lemma_s_add_interchange(s_mul(c, w), sw, s_mul(c, x), y);
        ax_s_distrib(c, w, x);
    }
}
