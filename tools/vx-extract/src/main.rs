//! vx-extract: slice real source text of named items out of /repo by syn span and apply the
//! listed mechanical edits (DESIGN.md 2.1, D0-D9).  Input: JSON request on stdin; output: JSON.
//!
//! Nothing is re-typed: every output text is the byte range of the item in the source file with
//! a list of local (start, end, replacement) edits applied, and every edit is logged.

use proc_macro2::{LineColumn, TokenStream, TokenTree};
use quote::ToTokens;
use serde::{Deserialize, Serialize};
use std::collections::BTreeMap;
use syn::spanned::Spanned;
use syn::visit::Visit;

mod scan;

#[derive(Deserialize)]
struct Request {
    repo: String,
    #[serde(default)]
    items: Vec<ItemReq>,
    #[serde(default)]
    scans: Vec<scan::ScanReq>,
}

#[derive(Deserialize, Default, Clone)]
struct ClosureSpec {
    #[serde(default)]
    ret: String,
    #[serde(default)]
    spec: String,
}

#[derive(Deserialize, Default, Clone)]
struct LoopSpec {
    #[serde(default)]
    iter: String,
    #[serde(default)]
    inv: String,
}

#[derive(Deserialize, Default, Clone)]
struct ItemReq {
    id: String,
    file: String,
    path: String,
    /// body | stub | decl
    #[serde(default)]
    mode: String,
    #[serde(default)]
    subst: BTreeMap<String, String>,
    #[serde(default)]
    contract: String,
    #[serde(default)]
    ret_name: Option<String>,
    #[serde(default)]
    closures: BTreeMap<String, ClosureSpec>,
    #[serde(default)]
    loops: BTreeMap<String, LoopSpec>,
    /// key: "k" (before top-level statement k of the fn body) or "loopJ:k"
    #[serde(default)]
    proofs: BTreeMap<String, String>,
    #[serde(default)]
    attrs: Vec<String>,
    #[serde(default)]
    derive_eq: bool,
    #[serde(default)]
    keep_derives: Option<Vec<String>>,
    #[serde(default)]
    trait_extra: String,
    /// trait declarations: method name -> contract text
    #[serde(default)]
    methods: BTreeMap<String, String>,
    /// textual replacements applied to the *type text of parameters* (exact token text -> text), logged as D8
    #[serde(default)]
    rename_fn: Option<String>,
    /// D11: path -> replacement text (resolution of `pub use` / type aliases of the crate root)
    #[serde(default)]
    paths: BTreeMap<String, String>,
    /// D13: closure ordinals whose enclosing `OPTION.map(|pat| body)` is rewritten to a `match`
    #[serde(default)]
    option_map: Vec<usize>,
    /// mode "slice": contiguous top-level statements [a, b) of the function body
    #[serde(default)]
    stmts: Vec<usize>,
    /// mode "slice": alternative anchor - statements from 0 up to (excluding) the first one containing this text
    #[serde(default)]
    stmts_until: String,
    /// no body edits at all (verbatim text, used for the Kani lane)
    #[serde(default)]
    raw: bool,
    /// shape guard: proof-hint key -> fingerprint of the statement the hint is anchored to (recorded on the unchanged tree);
    /// a hint whose ordinal no longer carries that fingerprint is re-anchored to the unique statement that does, else lost
    #[serde(default)]
    proof_expect: BTreeMap<String, String>,
    /// shape guard for `stmts: a b`: fingerprints of statements a and b-1
    #[serde(default)]
    stmts_expect: Vec<String>,
    /// shape guard: proof-hint key -> number of statements in the list the hint lives in (body or loop body), as recorded
    #[serde(default)]
    proof_expect_len: BTreeMap<String, usize>,
    /// shape guard for slices: recorded number of top-level statements
    #[serde(default)]
    stmts_expect_len: usize,
}

#[derive(Serialize, Default)]
struct ItemOut {
    id: String,
    ok: bool,
    #[serde(skip_serializing_if = "String::is_empty")]
    error: String,
    /// "lost-anchor" | "unsupported" | ""
    #[serde(skip_serializing_if = "String::is_empty")]
    error_kind: String,
    /// impl header text (after monomorphisation) for methods; empty for free items
    header: String,
    text: String,
    edits: Vec<EditLog>,
    file: String,
    start_line: usize,
    end_line: usize,
    /// verbatim source text of the item (before edits), for the evidence / replay files
    source: String,
    params: Vec<String>,
    /// associated `type X = ..;` items of a trait impl (after monomorphisation)
    assoc: String,
    /// struct declarations: field names in declaration order (tuple fields: their index)
    fields: Vec<String>,
    n_closures: usize,
    n_loops: usize,
    /// fingerprints (whitespace-collapsed first 48 characters) of the top-level statements of the body and of each loop body
    stmt_fps: Vec<String>,
    loop_fps: Vec<Vec<String>>,
}

fn fingerprint(_src: &Src, st: &syn::Stmt) -> String {
    // token text (no comments, normalised spacing), first 48 characters
    let t = st.to_token_stream().to_string();
    t.chars().take(48).collect::<String>().trim_end().to_string()
}

/// ordinal of the statement a hint is anchored to: the recorded ordinal if it still carries the expected fingerprint,
/// else the unique statement carrying it
fn resolve_anchor(src: &Src, stmts: &[syn::Stmt], idx: usize, expect: Option<&String>, expect_len: Option<usize>, what: &str) -> Result<(usize, bool), String> {
    match expect {
        None => if idx < stmts.len() { Ok((idx, false)) } else { Err(format!("lost-anchor: statement {} for {}", idx, what)) },
        Some(e) => {
            if idx < stmts.len() && &fingerprint(src, &stmts[idx]) == e {
                return Ok((idx, false));
            }
            let c: Vec<usize> = (0..stmts.len()).filter(|&k| &fingerprint(src, &stmts[k]) == e).collect();
            if c.len() == 1 {
                return Ok((c[0], true));
            }
            // the anchored statement was edited in place: same number of statements, so the ordinal still denotes it
            if c.is_empty() && idx < stmts.len() && expect_len == Some(stmts.len()) {
                return Ok((idx, false));
            }
            Err(format!("lost-anchor: the statement `{}...` that {} is anchored to was not found (or is not unique) in the current function body", e, what))
        }
    }
}

#[derive(Serialize, Clone)]
struct EditLog {
    kind: String,
    line: usize,
    detail: String,
}

struct Src {
    text: String,
    line_starts: Vec<usize>,
}

impl Src {
    fn new(text: String) -> Self {
        let mut line_starts = vec![0usize];
        for (i, b) in text.bytes().enumerate() {
            if b == b'\n' {
                line_starts.push(i + 1);
            }
        }
        Src { text, line_starts }
    }
    fn off(&self, lc: LineColumn) -> usize {
        let ls = self.line_starts[lc.line - 1];
        let line = &self.text[ls..];
        let mut o = ls;
        for (n, (i, _)) in line.char_indices().enumerate() {
            if n == lc.column {
                o = ls + i;
                return o;
            }
            o = ls + i;
        }
        // column at end of text
        let _ = o;
        ls + line
            .char_indices()
            .nth(lc.column)
            .map(|(i, _)| i)
            .unwrap_or(line.len())
    }
    fn start<T: Spanned>(&self, t: &T) -> usize {
        self.off(t.span().start())
    }
    fn end<T: Spanned>(&self, t: &T) -> usize {
        self.off(t.span().end())
    }
    fn line_of(&self, off: usize) -> usize {
        match self.line_starts.binary_search(&off) {
            Ok(i) => i + 1,
            Err(i) => i,
        }
    }
}

#[derive(Clone)]
struct Edit {
    start: usize,
    end: usize,
    text: String,
    kind: &'static str,
    detail: String,
    seq: usize,
}

#[derive(Default)]
struct Edits {
    v: Vec<Edit>,
}

impl Edits {
    fn replace(&mut self, start: usize, end: usize, text: String, kind: &'static str, detail: String) {
        let seq = self.v.len();
        self.v.push(Edit { start, end, text, kind, detail, seq });
    }
    fn insert(&mut self, at: usize, text: String, kind: &'static str, detail: String) {
        self.replace(at, at, text, kind, detail);
    }
    /// Apply to src[start..end].  Edits fully inside an earlier, larger replaced range are dropped.
    fn apply(&self, src: &Src, start: usize, end: usize, log: &mut Vec<EditLog>, only_kinds: Option<&[&str]>) -> Result<String, String> {
        let mut v: Vec<&Edit> = self
            .v
            .iter()
            .filter(|e| e.start >= start && e.end <= end)
            .filter(|e| only_kinds.map(|k| k.contains(&e.kind)).unwrap_or(true))
            .collect();
        // sort: by start; at equal start, zero-width insertions first (in seq order), then replacements (larger first)
        v.sort_by(|a, b| {
            a.start
                .cmp(&b.start)
                .then((a.end != a.start).cmp(&(b.end != b.start)))
                .then(if a.end != a.start { b.end.cmp(&a.end) } else { std::cmp::Ordering::Equal })
                .then(a.seq.cmp(&b.seq))
        });
        let mut out = String::new();
        let mut pos = start;
        for e in v {
            if e.start < pos {
                if e.end <= pos {
                    // contained in a previously replaced range: dropped
                    continue;
                }
                return Err(format!("overlapping edits at byte {} ({} / {})", e.start, e.kind, e.detail));
            }
            out.push_str(&src.text[pos..e.start]);
            out.push_str(&e.text);
            pos = e.end;
            if only_kinds.is_none() {
                log.push(EditLog { kind: e.kind.to_string(), line: src.line_of(e.start), detail: e.detail.clone() });
            }
        }
        out.push_str(&src.text[pos..end]);
        Ok(out)
    }
}

fn norm(s: &str) -> String {
    s.chars().filter(|c| !c.is_whitespace()).collect()
}

fn tokens_norm<T: ToTokens>(t: &T) -> String {
    norm(&t.to_token_stream().to_string())
}

fn is_cfg_test_or_feature(attrs: &[syn::Attribute]) -> bool {
    attrs.iter().any(|a| {
        if a.path().is_ident("cfg") {
            let s = a.meta.to_token_stream().to_string();
            s.contains("test") || s.contains("feature")
        } else {
            false
        }
    })
}

/// Collect all items of a file, descending into inline modules (skipping cfg(test)/cfg(feature) ones).
fn collect_items<'a>(items: &'a [syn::Item], modpath: &str, out: &mut Vec<(String, &'a syn::Item)>) {
    for it in items {
        match it {
            syn::Item::Mod(m) => {
                if is_cfg_test_or_feature(&m.attrs) {
                    continue;
                }
                if let Some((_, sub)) = &m.content {
                    let p = if modpath.is_empty() { m.ident.to_string() } else { format!("{}::{}", modpath, m.ident) };
                    collect_items(sub, &p, out);
                }
            }
            _ => out.push((modpath.to_string(), it)),
        }
    }
}

fn type_last_ident(ty: &syn::Type) -> Option<String> {
    match ty {
        syn::Type::Path(p) => p.path.segments.last().map(|s| s.ident.to_string()),
        _ => None,
    }
}

fn path_last_ident(p: &syn::Path) -> String {
    p.segments.last().map(|s| s.ident.to_string()).unwrap_or_default()
}

enum Found<'a> {
    Struct(&'a syn::ItemStruct),
    Enum(&'a syn::ItemEnum),
    Const(&'a syn::ItemConst),
    Type(&'a syn::ItemType),
    Trait(&'a syn::ItemTrait),
    Fn(&'a syn::ItemFn),
    Method(&'a syn::ItemImpl, &'a syn::ImplItemFn),
}

fn split_index(path: &str) -> (String, usize) {
    if let Some(i) = path.rfind('#') {
        if let Ok(k) = path[i + 1..].trim().parse::<usize>() {
            return (path[..i].trim().to_string(), k);
        }
    }
    (path.trim().to_string(), 0)
}

fn find_item<'a>(all: &'a [(String, &'a syn::Item)], path: &str) -> Result<Found<'a>, String> {
    let (path, index) = split_index(path);
    let mut it = path.splitn(2, char::is_whitespace);
    let kind = it.next().unwrap_or("");
    let rest = it.next().unwrap_or("").trim();
    let mut matches: Vec<Found<'a>> = Vec::new();
    match kind {
        "struct" | "enum" | "const" | "type" | "trait" => {
            for (_, item) in all {
                match (kind, item) {
                    ("struct", syn::Item::Struct(s)) if s.ident == rest => matches.push(Found::Struct(s)),
                    ("enum", syn::Item::Enum(s)) if s.ident == rest => matches.push(Found::Enum(s)),
                    ("const", syn::Item::Const(s)) if s.ident == rest => matches.push(Found::Const(s)),
                    ("type", syn::Item::Type(s)) if s.ident == rest => matches.push(Found::Type(s)),
                    ("trait", syn::Item::Trait(s)) if s.ident == rest => matches.push(Found::Trait(s)),
                    _ => {}
                }
            }
        }
        "fn" => {
            let (m, name) = match rest.rfind("::") {
                Some(i) => (Some(rest[..i].to_string()), rest[i + 2..].to_string()),
                None => (None, rest.to_string()),
            };
            for (modpath, item) in all {
                if let syn::Item::Fn(f) = item {
                    if f.sig.ident == name && m.as_ref().map(|m| modpath == m).unwrap_or(true) {
                        matches.push(Found::Fn(f));
                    }
                }
            }
        }
        "impl" => {
            // "Type::method" or "Trait for Type::method"
            let i = rest.rfind("::").ok_or_else(|| format!("bad impl path '{}'", path))?;
            let method = rest[i + 2..].trim().to_string();
            let head = rest[..i].trim();
            let (tr, ty) = match head.find(" for ") {
                Some(j) => (Some(head[..j].trim().to_string()), head[j + 5..].trim().to_string()),
                None => (None, head.to_string()),
            };
            for (_, item) in all {
                if let syn::Item::Impl(im) = item {
                    if is_cfg_test_or_feature(&im.attrs) {
                        continue;
                    }
                    let ty_ok = if ty.contains('<') || ty.contains('&') || ty.contains('[') {
                        tokens_norm(&*im.self_ty) == norm(&ty)
                    } else {
                        type_last_ident(&im.self_ty).map(|s| s == ty).unwrap_or(false)
                    };
                    if !ty_ok {
                        continue;
                    }
                    let tr_ok = match (&tr, &im.trait_) {
                        (None, None) => true,
                        (Some(t), Some((_, p, _))) => {
                            if t.contains('<') {
                                tokens_norm(p) == norm(t)
                            } else {
                                path_last_ident(p) == *t
                            }
                        }
                        _ => false,
                    };
                    if !tr_ok {
                        continue;
                    }
                    for ii in &im.items {
                        if let syn::ImplItem::Fn(f) = ii {
                            if f.sig.ident == method {
                                matches.push(Found::Method(im, f));
                            }
                        }
                    }
                }
            }
        }
        _ => return Err(format!("unknown item kind in path '{}'", path)),
    }
    let n = matches.len();
    if n == 0 {
        return Err(format!("item '{}' not found", path));
    }
    if index >= n {
        return Err(format!("item '{}' has {} matches, index {} requested", path, n, index));
    }
    if n > 1 && !path_has_index(&path) && index == 0 {
        // ambiguous without explicit index: still deterministic, but report
    }
    Ok(matches.into_iter().nth(index).unwrap())
}

fn path_has_index(_p: &str) -> bool {
    false
}

/// Walk a token stream, calling f on every ident with its span.
fn walk_idents(ts: TokenStream, f: &mut dyn FnMut(&proc_macro2::Ident)) {
    for tt in ts {
        match tt {
            TokenTree::Group(g) => walk_idents(g.stream(), f),
            TokenTree::Ident(i) => f(&i),
            _ => {}
        }
    }
}

struct Ctx<'a> {
    src: &'a Src,
    req: &'a ItemReq,
    edits: Edits,
}

impl<'a> Ctx<'a> {
    fn subst_param_refs(&self, text: &str, params: &[String]) -> String {
        // $0 = self, $k = k-th non-self parameter
        let mut out = text.to_string();
        for k in (1..=params.len()).rev() {
            out = out.replace(&format!("${}", k), &params[k - 1]);
        }
        out
    }

    /// D7: identifier substitution over a token stream (restricted to [lo, hi)).
    fn subst_idents<T: ToTokens>(&mut self, node: &T, lo: usize, hi: usize, extra: Option<(&str, &str)>) {
        let src = self.src;
        let subst = &self.req.subst;
        let mut found: Vec<(usize, usize, String, String)> = Vec::new();
        walk_idents(node.to_token_stream(), &mut |id| {
            let name = id.to_string();
            let s = src.off(id.span().start());
            let e = src.off(id.span().end());
            if s < lo || e > hi {
                return;
            }
            if let Some((from, to)) = extra {
                if name == from {
                    found.push((s, e, name.clone(), to.to_string()));
                    return;
                }
            }
            if let Some(to) = subst.get(&name) {
                found.push((s, e, name, to.clone()));
            }
        });
        for (s, e, from, to) in found {
            let kind = if extra.map(|x| x.0 == from).unwrap_or(false) { "D5" } else { "D7" };
            self.edits.replace(s, e, to.clone(), kind, format!("{} -> {}", from, to));
        }
    }

    /// Render source range with only the D7 (identifier) edits applied.
    fn render(&self, lo: usize, hi: usize) -> String {
        let mut dummy = Vec::new();
        self.edits.apply(self.src, lo, hi, &mut dummy, Some(&["D7"])).unwrap_or_else(|_| self.src.text[lo..hi].to_string())
    }

    /// D7: drop substituted generic parameters and where-predicates.
    fn mono_generics(&mut self, g: &syn::Generics) {
        let src = self.src;
        if let (Some(lt), Some(gt)) = (&g.lt_token, &g.gt_token) {
            let mut keep: Vec<String> = Vec::new();
            let mut dropped: Vec<String> = Vec::new();
            for p in &g.params {
                let name = match p {
                    syn::GenericParam::Type(t) => t.ident.to_string(),
                    syn::GenericParam::Const(c) => c.ident.to_string(),
                    syn::GenericParam::Lifetime(l) => l.lifetime.to_string(),
                };
                if self.req.subst.contains_key(&name) {
                    dropped.push(name);
                } else {
                    keep.push(self.render(src.start(p), src.end(p)));
                }
            }
            if !dropped.is_empty() {
                let s = src.off(lt.span().start());
                let e = src.off(gt.span().end());
                let text = if keep.is_empty() { String::new() } else { format!("<{}>", keep.join(", ")) };
                self.edits.replace(s, e, text, "D7g", format!("generic parameters {:?} instantiated", dropped));
            }
        }
        if let Some(w) = &g.where_clause {
            let mut keep: Vec<String> = Vec::new();
            let mut dropped = 0;
            for p in &w.predicates {
                let drop = match p {
                    syn::WherePredicate::Type(t) => {
                        let b = tokens_norm(&t.bounded_ty);
                        self.req.subst.contains_key(&b)
                    }
                    _ => false,
                };
                if drop {
                    dropped += 1;
                } else {
                    keep.push(self.render(src.start(p), src.end(p)));
                }
            }
            if dropped > 0 {
                let s = src.start(w);
                let e = src.end(w);
                let text = if keep.is_empty() { String::new() } else { format!("where {}", keep.join(", ")) };
                self.edits.replace(s, e, text, "D7g", format!("{} where-predicate(s) on instantiated parameters dropped", dropped));
            }
        }
    }
}

fn param_names(sig: &syn::Signature) -> Vec<String> {
    let mut v = Vec::new();
    for a in &sig.inputs {
        if let syn::FnArg::Typed(t) = a {
            match &*t.pat {
                syn::Pat::Ident(i) => v.push(i.ident.to_string()),
                other => v.push(tokens_norm(other)),
            }
        }
    }
    v
}

/// D3 helper: rewrite a closure parameter pattern into (verus-friendly pattern text, extra lets).
fn desugar_pat(p: &syn::Pat, extra: &mut Vec<String>) -> Result<String, String> {
    match p {
        syn::Pat::Ident(i) if i.subpat.is_none() && i.by_ref.is_none() => Ok(i.ident.to_string()),
        syn::Pat::Wild(_) => Ok("_".to_string()),
        syn::Pat::Reference(r) => match &*r.pat {
            syn::Pat::Ident(i) if i.subpat.is_none() => {
                let n = i.ident.to_string();
                extra.push(format!("let {} = *{}__r;", n, n));
                Ok(format!("{}__r", n))
            }
            _ => Err("closure parameter pattern: nested reference pattern".to_string()),
        },
        syn::Pat::Tuple(t) => {
            let mut parts = Vec::new();
            for e in &t.elems {
                parts.push(desugar_pat(e, extra)?);
            }
            Ok(format!("({})", parts.join(", ")))
        }
        syn::Pat::Type(t) => desugar_pat(&t.pat, extra),
        _ => Err(format!("closure parameter pattern not supported: {}", p.to_token_stream())),
    }
}

struct PathVisitor<'a> {
    paths: &'a BTreeMap<String, String>,
    found: Vec<(proc_macro2::Span, proc_macro2::Span, String, String)>,
}
impl<'a, 'ast> Visit<'ast> for PathVisitor<'a> {
    fn visit_path(&mut self, p: &'ast syn::Path) {
        // match the path without generic arguments of the last segment
        let mut key = String::new();
        for (i, seg) in p.segments.iter().enumerate() {
            if i > 0 { key.push_str("::"); }
            key.push_str(&seg.ident.to_string());
        }
        if let Some(to) = self.paths.get(&key) {
            let first = p.segments.first().unwrap().ident.span();
            let last = p.segments.last().unwrap().ident.span();
            self.found.push((first, last, key, to.clone()));
            return;
        }
        syn::visit::visit_path(self, p);
    }
}

#[derive(Default)]
struct BodyVisitor<'ast> {
    closures: Vec<&'ast syn::ExprClosure>,
    loops: Vec<&'ast syn::Expr>,
    sums: Vec<&'ast syn::ExprMethodCall>,
    ctor_args: Vec<&'ast syn::ExprPath>,
    maps: Vec<&'ast syn::ExprMethodCall>,
    derefs: Vec<&'ast syn::ExprUnary>,
}

impl<'ast> Visit<'ast> for BodyVisitor<'ast> {
    fn visit_expr_closure(&mut self, c: &'ast syn::ExprClosure) {
        self.closures.push(c);
        syn::visit::visit_expr_closure(self, c);
    }
    fn visit_expr(&mut self, e: &'ast syn::Expr) {
        match e {
            syn::Expr::ForLoop(_) | syn::Expr::While(_) | syn::Expr::Loop(_) => self.loops.push(e),
            _ => {}
        }
        syn::visit::visit_expr(self, e);
    }
    fn visit_expr_method_call(&mut self, m: &'ast syn::ExprMethodCall) {
        if m.method == "sum" {
            self.sums.push(m);
        }
        if m.method == "map" && m.args.len() == 1 {
            if let syn::Expr::Closure(_) = &m.args[0] {
                self.maps.push(m);
            }
        }
        if (m.method == "map" || m.method == "map_err") && m.args.len() == 1 {
            if let syn::Expr::Path(p) = &m.args[0] {
                if p.path.segments.len() == 1 {
                    let id = p.path.segments[0].ident.to_string();
                    if id == "Self" || id.chars().next().map(|c| c.is_uppercase()).unwrap_or(false) {
                        self.ctor_args.push(p);
                    }
                }
            }
        }
        syn::visit::visit_expr_method_call(self, m);
    }
    fn visit_expr_unary(&mut self, u: &'ast syn::ExprUnary) {
        if let syn::UnOp::Deref(_) = u.op {
            self.derefs.push(u);
        }
        syn::visit::visit_expr_unary(self, u);
    }
    fn visit_item(&mut self, _i: &'ast syn::Item) {
        // do not descend into nested items
    }
}

fn process_fn(
    ctx: &mut Ctx,
    vis_start: usize,
    sig: &syn::Signature,
    block: Option<&syn::Block>,
    semi_end: usize,
    out: &mut ItemOut,
) -> Result<(usize, usize), String> {
    let src = ctx.src;
    let req = ctx.req;
    let params = param_names(sig);
    out.params = params.clone();
    let item_end = block.map(|b| src.end(b)).unwrap_or(semi_end);

    // D7 identifier substitution over signature and body
    if !req.subst.is_empty() {
        ctx.subst_idents(sig, vis_start, item_end, None);
        if let Some(b) = block {
            ctx.subst_idents(b, vis_start, item_end, None);
        }
        ctx.mono_generics(&sig.generics);
    }

    // D11 crate-root alias resolution
    if !req.paths.is_empty() {
        let mut pv = PathVisitor { paths: &req.paths, found: Vec::new() };
        pv.visit_signature(sig);
        if let Some(b) = block {
            pv.visit_block(b);
        }
        for (a, b, from, to) in pv.found {
            ctx.edits.replace(src.off(a.start()), src.off(b.end()), to.clone(), "D11", format!("{} -> {} (crate-root alias resolved)", from, to));
        }
    }

    // D1 name the return value
    let ret_name = req.ret_name.clone().unwrap_or_else(|| "r".to_string());
    if let syn::ReturnType::Type(_, ty) = &sig.output {
        let is_unit = matches!(&**ty, syn::Type::Tuple(t) if t.elems.is_empty());
        if !is_unit {
            ctx.edits.insert(src.start(&**ty), format!("({}: ", ret_name), "D1", format!("return value named '{}'", ret_name));
            ctx.edits.insert(src.end(&**ty), ")".to_string(), "D1", String::new());
        }
    }
    if let Some(n) = &req.rename_fn {
        ctx.edits.replace(src.start(&sig.ident), src.end(&sig.ident), n.clone(), "D7n", format!("instantiation renamed to {}", n));
    }

    let contract = ctx.subst_param_refs(&req.contract, &params);

    // D5 `mut self` receiver
    let mut_self = match sig.receiver() {
        Some(r) if r.reference.is_none() && r.mutability.is_some() => Some(r),
        _ => None,
    };
    if let Some(r) = mut_self {
        ctx.edits.replace(src.start(r), src.end(r), "self".to_string(), "D5", "`mut self` receiver -> `self` + `let mut self_ = self;`".to_string());
    }

    let stub = req.mode == "stub" || block.is_none();
    match block {
        None => {
            // trait method declaration: contract goes before the `;`
            if !contract.trim().is_empty() {
                ctx.edits.insert(semi_end - 1, format!("\n{}\n", indent(&contract, 8)), "D2", "contract inserted".to_string());
            }
        }
        Some(b) => {
            let open = src.off(b.brace_token.span.open().start());
            if !contract.trim().is_empty() {
                ctx.edits.insert(open, format!("\n{}\n    ", indent(&contract, 8)), "D2", "contract inserted".to_string());
            }
            if stub {
                ctx.edits.replace(open, src.end(b), "{ unimplemented!() }".to_string(), "STUB", "body dropped: contract-only (assumed for callers)".to_string());
            } else if req.raw {
                // verbatim
            } else {
                if mut_self.is_some() {
                    ctx.edits.insert(open + 1, " let mut self_ = self;".to_string(), "D5", String::new());
                    ctx.subst_idents(b, open, src.end(b), Some(("self", "self_")));
                }
                let mut bv = BodyVisitor::default();
                bv.visit_block(b);
                out.n_closures = bv.closures.len();
                out.n_loops = bv.loops.len();
                out.stmt_fps = b.stmts.iter().map(|st| fingerprint(src, st)).collect();
                out.loop_fps = bv.loops.iter().map(|lp| {
                    let body = match lp { syn::Expr::ForLoop(f) => &f.body, syn::Expr::While(w) => &w.body, syn::Expr::Loop(w) => &w.body, _ => unreachable!() };
                    body.stmts.iter().map(|st| fingerprint(src, st)).collect()
                }).collect();

                // D4 .sum::<X>() -> iter_sum::<X, _>(..)
                for m in &bv.sums {
                    let x = match &m.turbofish {
                        Some(t) => {
                            let a = &t.args;
                            ctx.render(src.start(a), src.end(a))
                        }
                        None => "_".to_string(),
                    };
                    let rs = src.start(&*m.receiver);
                    let re = src.end(&*m.receiver);
                    ctx.edits.insert(rs, format!("iter_sum::<{}, _>(", x), "D4", format!(".sum::<{}>() -> iter_sum", x));
                    ctx.edits.replace(re, src.end(*m), ")".to_string(), "D4", String::new());
                }

                // D12 tuple-struct constructor used as a function value: eta-expand
                for p in &bv.ctor_args {
                    let t = ctx.render(src.start(*p), src.end(*p));
                    ctx.edits.replace(src.start(*p), src.end(*p), format!("|x__| -> (o__: {t}) ensures o__ == {t}(x__) {{ {t}(x__) }}", t = t), "D12", format!("constructor `{}` used as a function value eta-expanded to a closure", t));
                }

                // D3 + closure contracts
                for (k, c) in bv.closures.iter().enumerate() {
                    if req.option_map.contains(&k) {
                        // D13: OPTION.map(|pat| body)  ->  match OPTION { Some(pat) => Some(body), None => None }
                        let m = bv.maps.iter().find(|m| matches!(&m.args[0], syn::Expr::Closure(cc) if std::ptr::eq(cc, *c)))
                            .ok_or_else(|| format!("lost-anchor: closure {} is not the argument of a .map(..) call", k))?;
                        if c.inputs.len() != 1 {
                            return Err("unsupported: option_map closure must take one parameter".to_string());
                        }
                        let pat = &c.inputs[0];
                        let pat_text = src.text[src.start(pat)..src.end(pat)].to_string();
                        ctx.edits.insert(src.start(&*m.receiver), "match ".to_string(), "D13", format!("closure {}: Option::map with a closure literal rewritten to a match", k));
                        ctx.edits.replace(src.end(&*m.receiver), src.start(&*c.body), format!(" {{ Some({}) => Some(", pat_text), "D13", String::new());
                        ctx.edits.replace(src.end(&*c.body), src.end(*m), "), None => None }".to_string(), "D13", String::new());
                        continue;
                    }
                    let spec = req.closures.get(&k.to_string()).cloned().unwrap_or_default();
                    let mut lets: Vec<String> = Vec::new();
                    for (i, p) in c.inputs.iter().enumerate() {
                        let simple = match p {
                            syn::Pat::Ident(pi) => pi.subpat.is_none() && pi.by_ref.is_none(),
                            syn::Pat::Type(pt) => matches!(&*pt.pat, syn::Pat::Ident(_)),
                            _ => false,
                        };
                        if !simple {
                            let mut extra = Vec::new();
                            let newpat = desugar_pat(p, &mut extra).map_err(|e| format!("unsupported: {}", e))?;
                            let pname = format!("p{}_{}__", k, i);
                            ctx.edits.replace(src.start(p), src.end(p), pname.clone(), "D3", format!("closure {} parameter pattern `{}` -> identifier + let", k, tokens_norm(p)));
                            lets.push(format!("let {} = {};", newpat, pname));
                            lets.extend(extra);
                        }
                    }
                    let has_spec = !spec.ret.trim().is_empty() || !spec.spec.trim().is_empty();
                    if has_spec {
                        let txt = ctx.subst_param_refs(&format!(" -> {} {} ", spec.ret, spec.spec), &params);
                        ctx.edits.insert(src.off(c.or2_token.span().end()), txt, "D2c", format!("closure {} contract inserted", k));
                    }
                    if has_spec || !lets.is_empty() {
                        let body = &*c.body;
                        let l = lets.join(" ");
                        match body {
                            syn::Expr::Block(eb) if eb.attrs.is_empty() && eb.label.is_none() => {
                                let o = src.off(eb.block.brace_token.span.open().start());
                                if !l.is_empty() {
                                    ctx.edits.insert(o + 1, format!(" {}", l), "D3", String::new());
                                }
                            }
                            _ => {
                                ctx.edits.insert(src.start(body), format!("{{ {} ", l), "D3", format!("closure {} body wrapped in a block", k));
                                ctx.edits.insert(src.end(body), " }".to_string(), "D3", String::new());
                            }
                        }
                    }
                }

                // D6: `for x in &mut ARR { .. *x .. }` -> index loop over ARR[i]
                let mut d6_done: Vec<usize> = Vec::new();
                for (k, l) in bv.loops.iter().enumerate() {
                    if let syn::Expr::ForLoop(f) = l {
                        if let syn::Expr::Reference(r) = &*f.expr {
                            if r.mutability.is_some() {
                                let arr = src.text[src.start(&*r.expr)..src.end(&*r.expr)].to_string();
                                let var = match &*f.pat {
                                    syn::Pat::Ident(pi) => pi.ident.to_string(),
                                    _ => return Err("unsupported: `for PAT in &mut ..` with a non-identifier pattern".to_string()),
                                };
                                let iv = format!("vx_i{}", k);
                                let inv = req.loops.get(&k.to_string()).map(|ls| ctx.subst_param_refs(&ls.inv, &params)).unwrap_or_default();
                                let o = src.off(f.body.brace_token.span.open().start());
                                ctx.edits.replace(src.start(*l), o, format!("let mut {iv}: usize = 0;\n        while {iv} < {arr}.len()\n{inv}\n            decreases {arr}.len() - {iv},\n        ", iv = iv, arr = arr, inv = indent(&inv, 12)), "D6", format!("loop {}: `for {} in &mut {}` rewritten to an index loop", k, var, arr));
                                for u in &bv.derefs {
                                    if let syn::Expr::Path(p) = &*u.expr {
                                        if p.path.is_ident(&var) && src.start(*u) >= o && src.end(*u) <= src.end(&f.body) {
                                            ctx.edits.replace(src.start(*u), src.end(*u), format!("{}[{}]", arr, iv), "D6", String::new());
                                        }
                                    }
                                }
                                let close = src.off(f.body.brace_token.span.close().start());
                                ctx.edits.insert(close, format!("    {} += 1;\n        ", iv), "D6", String::new());
                                d6_done.push(k);
                            }
                        }
                    }
                }

                // D15: `for (i, x) in E.iter().enumerate() { .. }` -> index loop with `let i = idx; let x = &E[idx];`
                for (k, l) in bv.loops.iter().enumerate() {
                    if let syn::Expr::ForLoop(f) = l {
                        if let syn::Expr::MethodCall(en) = &*f.expr {
                            if en.method == "enumerate" && en.args.is_empty() {
                                if let syn::Expr::MethodCall(it) = &*en.receiver {
                                    if it.method == "iter" && it.args.is_empty() {
                                        let arr = src.text[src.start(&*it.receiver)..src.end(&*it.receiver)].to_string();
                                        let (iv, xv) = match &*f.pat {
                                            syn::Pat::Tuple(t) if t.elems.len() == 2 => match (&t.elems[0], &t.elems[1]) {
                                                (syn::Pat::Ident(a), syn::Pat::Ident(b)) => (a.ident.to_string(), b.ident.to_string()),
                                                _ => return Err("unsupported: enumerate loop pattern".to_string()),
                                            },
                                            _ => return Err("unsupported: enumerate loop pattern".to_string()),
                                        };
                                        let idx = format!("vx_e{}", k);
                                        let inv = req.loops.get(&k.to_string()).map(|ls| ctx.subst_param_refs(&ls.inv, &params)).unwrap_or_default();
                                        let o = src.off(f.body.brace_token.span.open().start());
                                        ctx.edits.replace(src.start(*l), o + 1, format!("let mut {idx}: usize = 0;\n        while {idx} < {arr}.len()\n{inv}\n            decreases {arr}.len() - {idx},\n        {{ let {iv} = {idx}; let {xv} = &{arr}[{idx}];", idx = idx, arr = arr, inv = indent(&inv, 12), iv = iv, xv = xv), "D15", format!("loop {}: `for ({}, {}) in {}.iter().enumerate()` rewritten to an index loop", k, iv, xv, arr));
                                        let close = src.off(f.body.brace_token.span.close().start());
                                        ctx.edits.insert(close, format!("    {} += 1;\n        ", idx), "D15", String::new());
                                        d6_done.push(k);
                                    }
                                }
                            }
                        }
                    }
                }

                // loop invariants
                for (k, l) in bv.loops.iter().enumerate() {
                    if d6_done.contains(&k) { continue; }
                    if let Some(ls) = req.loops.get(&k.to_string()) {
                        let inv = ctx.subst_param_refs(&ls.inv, &params);
                        match l {
                            syn::Expr::ForLoop(f) => {
                                if !ls.iter.is_empty() {
                                    ctx.edits.insert(src.start(&*f.expr), format!("{}: ", ls.iter), "D2l", format!("loop {} iterator named '{}'", k, ls.iter));
                                }
                                let o = src.off(f.body.brace_token.span.open().start());
                                ctx.edits.insert(o, format!("\n{}\n        ", indent(&inv, 12)), "D2l", format!("loop {} invariant inserted", k));
                            }
                            syn::Expr::While(w) => {
                                let o = src.off(w.body.brace_token.span.open().start());
                                ctx.edits.insert(o, format!("\n{}\n        ", indent(&inv, 12)), "D2l", format!("loop {} invariant inserted", k));
                            }
                            syn::Expr::Loop(w) => {
                                let o = src.off(w.body.brace_token.span.open().start());
                                ctx.edits.insert(o, format!("\n{}\n        ", indent(&inv, 12)), "D2l", format!("loop {} invariant inserted", k));
                            }
                            _ => {}
                        }
                    }
                }

                // proof hints
                for (key, text) in &req.proofs {
                    let text = ctx.subst_param_refs(text, &params);
                    if key == "tail" {
                        // D16: bind the tail expression so that a proof hint can mention the result
                        match b.stmts.last() {
                            Some(syn::Stmt::Expr(e, None)) => {
                                let rn = req.ret_name.clone().unwrap_or_else(|| "r".to_string());
                                ctx.edits.insert(src.start(e), format!("let {}__ = ", rn), "D16", "tail expression bound to a local so that a proof hint can mention the result".to_string());
                                ctx.edits.insert(src.end(e), format!(";\n        {}\n        {}__", text, rn), "D16", String::new());
                            }
                            _ => return Err("unsupported: `proof tail` needs a function body ending in a tail expression".to_string()),
                        }
                        continue;
                    }
                    if key == "start" {
                        // right after the opening brace of the body: for hints that do not depend on any statement
                        let open_b = src.off(b.brace_token.span.open().start());
                        ctx.edits.insert(open_b + 1, format!("\n        {}\n", text), "D2p", "proof hint inserted at the start of the body".to_string());
                        continue;
                    }
                    if key == "end" {
                        // before the closing brace of the function body (body must not end in a tail expression)
                        let close = src.off(b.brace_token.span.close().start());
                        ctx.edits.insert(close, format!("{}\n    ", text), "D2p", "proof hint inserted at end of body".to_string());
                        continue;
                    }
                    let (stmts, idx): (&Vec<syn::Stmt>, usize) = if let Some(rest) = key.strip_prefix("loop") {
                        let mut it = rest.splitn(2, ':');
                        let j: usize = it.next().unwrap_or("").parse().map_err(|_| format!("bad proof key {}", key))?;
                        let k: usize = it.next().unwrap_or("").parse().map_err(|_| format!("bad proof key {}", key))?;
                        let lp = bv.loops.get(j).ok_or_else(|| format!("lost-anchor: loop {} for proof hint", j))?;
                        let body = match lp {
                            syn::Expr::ForLoop(f) => &f.body,
                            syn::Expr::While(w) => &w.body,
                            syn::Expr::Loop(w) => &w.body,
                            _ => unreachable!(),
                        };
                        (&body.stmts, k)
                    } else {
                        (&b.stmts, key.parse().map_err(|_| format!("bad proof key {}", key))?)
                    };
                    let (idx, moved) = resolve_anchor(src, stmts, idx, req.proof_expect.get(key), req.proof_expect_len.get(key).copied(), &format!("proof hint '{}'", key))?;
                    let st = &stmts[idx];
                    ctx.edits.insert(src.start(st), format!("{}\n        ", text), "D2p", if moved { format!("proof hint {} re-anchored to statement {} (same statement text, new position)", key, idx) } else { format!("proof hint inserted before statement {}", key) });
                }
                for key in req.closures.keys() {
                    let k: usize = key.parse().map_err(|_| "bad closure key".to_string())?;
                    if k >= bv.closures.len() {
                        return Err(format!("lost-anchor: closure {} (function has {})", k, bv.closures.len()));
                    }
                }
                for key in req.loops.keys() {
                    let k: usize = key.parse().map_err(|_| "bad loop key".to_string())?;
                    if k >= bv.loops.len() {
                        return Err(format!("lost-anchor: loop {} (function has {})", k, bv.loops.len()));
                    }
                }
            }
        }
    }
    if req.mode == "slice" {
        let b = block.ok_or_else(|| "unsupported: slice of a function without body".to_string())?;
        let mut range = req.stmts.clone();
        if !req.stmts_until.is_empty() {
            let k = b.stmts.iter().position(|st| src.text[src.start(st)..src.end(st)].contains(&req.stmts_until));
            match k {
                Some(k) if k > 0 => range = vec![0, k],
                _ => return Err(format!("lost-anchor: no statement containing `{}`", req.stmts_until)),
            }
        }
        if req.stmts_until.is_empty() && range.len() == 2 && req.stmts_expect.len() == 2 && range[1] >= 1 {
            let (a, _) = resolve_anchor(src, &b.stmts, range[0], Some(&req.stmts_expect[0]), Some(req.stmts_expect_len), "the first statement of the slice")?;
            let (z, _) = resolve_anchor(src, &b.stmts, range[1] - 1, Some(&req.stmts_expect[1]), Some(req.stmts_expect_len), "the last statement of the slice")?;
            if z - a != range[1] - 1 - range[0] && a < z + 1 {
                return Err(format!("lost-anchor: the slice {:?} now spans a different number of statements ({}..={})", range, a, z));
            }
            range = vec![a, z + 1];
        }
        if range.len() != 2 || range[0] >= range[1] || range[1] > b.stmts.len() {
            return Err(format!("lost-anchor: statement range {:?} (function body has {} statements)", range, b.stmts.len()));
        }
        let s = src.start(&b.stmts[range[0]]);
        let e = src.end(&b.stmts[range[1] - 1]);
        ctx.edits.insert(s, String::new(), "SLICE", format!("only top-level statements {}..{} of the body are verified here; the rest of the function is dropped from this item", range[0], range[1]));
        return Ok((s, e));
    }
    Ok((vis_start, item_end))
}

fn indent(s: &str, n: usize) -> String {
    let pad = " ".repeat(n);
    s.trim_matches('\n')
        .lines()
        .map(|l| format!("{}{}", pad, l.trim_end()))
        .collect::<Vec<_>>()
        .join("\n")
}

fn vis_or<T: Spanned, U: Spanned>(src: &Src, vis: &syn::Visibility, fallback: &T, _x: &U) -> usize {
    match vis {
        syn::Visibility::Inherited => src.start(fallback),
        v => src.start(v),
    }
}

/// D0: delete attribute spans (doc comments, serde attributes) inside [lo, hi).
fn strip_attrs(ctx: &mut Ctx, attrs: &[syn::Attribute]) {
    for a in attrs {
        let s = ctx.src.start(a);
        let e = ctx.src.end(a);
        let what = if a.path().is_ident("doc") { "doc comment" } else { "attribute" };
        ctx.edits.replace(s, e, String::new(), "D0", format!("{} dropped: {}", what, a.path().to_token_stream()));
    }
}

fn derive_list(attrs: &[syn::Attribute]) -> Vec<String> {
    let mut v = Vec::new();
    for a in attrs {
        if a.path().is_ident("derive") {
            let _ = a.parse_nested_meta(|m| {
                v.push(path_last_ident(&m.path));
                Ok(())
            });
        }
    }
    v
}

fn process_item(src: &Src, all: &[(String, &syn::Item)], req: &ItemReq) -> ItemOut {
    let mut out = ItemOut { id: req.id.clone(), file: req.file.clone(), ..Default::default() };
    let found = match find_item(all, &req.path) {
        Ok(f) => f,
        Err(e) => {
            out.error = e;
            out.error_kind = "lost-anchor".to_string();
            return out;
        }
    };
    // identity entries (K=K) mean "leave this parameter generic"
    let mut req_owned = req.clone();
    req_owned.subst.retain(|k, v| k != v);
    let req = &req_owned;
    let mut ctx = Ctx { src, req, edits: Edits::default() };
    let mut log: Vec<EditLog> = Vec::new();
    let res: Result<(usize, usize, usize, usize), String> = (|| {
        match found {
            Found::Fn(f) => {
                let vs = vis_or(src, &f.vis, &f.sig, &f.sig);
                let (s, e) = process_fn(&mut ctx, vs, &f.sig, Some(&f.block), 0, &mut out)?;
                Ok((s, e, src.start(f), src.end(f)))
            }
            Found::Method(im, f) => {
                let vs = vis_or(src, &f.vis, &f.sig, &f.sig);
                let (s, e) = process_fn(&mut ctx, vs, &f.sig, Some(&f.block), 0, &mut out)?;
                // impl header: from `impl` to just before `{`
                let hs = src.off(im.impl_token.span().start());
                let he = src.off(im.brace_token.span.open().start());
                let mut hctx = Ctx { src, req, edits: Edits::default() };
                if !req.subst.is_empty() {
                    hctx.subst_idents(&im.generics, hs, he, None);
                    hctx.subst_idents(&*im.self_ty, hs, he, None);
                    if let Some((_, p, _)) = &im.trait_ {
                        hctx.subst_idents(p, hs, he, None);
                    }
                    if let Some(w) = &im.generics.where_clause {
                        hctx.subst_idents(w, hs, he, None);
                    }
                    hctx.mono_generics(&im.generics);
                }
                let mut hlog = Vec::new();
                let header = hctx.edits.apply(src, hs, he, &mut hlog, None)?;
                log.extend(hlog);
                out.header = header.split_whitespace().collect::<Vec<_>>().join(" ");
                // associated types of a trait impl travel with the method
                for ii in &im.items {
                    if let syn::ImplItem::Type(t) = ii {
                        let ts = src.off(t.type_token.span().start());
                        let te = src.end(t);
                        let mut actx = Ctx { src, req, edits: Edits::default() };
                        if !req.subst.is_empty() {
                            actx.subst_idents(t, ts, te, None);
                        }
                        let mut alog = Vec::new();
                        let txt = actx.edits.apply(src, ts, te, &mut alog, None)?;
                        log.extend(alog);
                        out.assoc.push_str(&txt);
                        out.assoc.push('\n');
                    }
                }
                Ok((s, e, src.start(f), src.end(f)))
            }
            Found::Struct(s) => {
                for (i, f) in s.fields.iter().enumerate() {
                    out.fields.push(f.ident.as_ref().map(|x| x.to_string()).unwrap_or_else(|| i.to_string()));
                }
                if !req.paths.is_empty() {
                    let mut pv = PathVisitor { paths: &req.paths, found: Vec::new() };
                    pv.visit_item_struct(s);
                    for (a, b, from, to) in pv.found {
                        ctx.edits.replace(src.off(a.start()), src.off(b.end()), to.clone(), "D11", format!("{} -> {} (crate-root alias resolved)", from, to));
                    }
                }
                strip_attrs(&mut ctx, &s.attrs);
                for f in s.fields.iter() {
                    strip_attrs(&mut ctx, &f.attrs);
                    // D10: contracts of `pub` functions mention fields; Verus requires them visible
                    match &f.vis {
                        syn::Visibility::Public(_) => {}
                        syn::Visibility::Inherited => {
                            let at = match &f.ident { Some(i) => src.start(i), None => src.start(&f.ty) };
                            ctx.edits.insert(at, "pub ".to_string(), "D10", "field visibility widened to pub (single-file crate)".to_string());
                        }
                        v => {
                            ctx.edits.replace(src.start(v), src.end(v), "pub".to_string(), "D10", "field visibility widened to pub (single-file crate)".to_string());
                        }
                    }
                }
                let vs = vis_or(src, &s.vis, &s.struct_token, &s.ident);
                match &s.vis {
                    syn::Visibility::Public(_) => {}
                    syn::Visibility::Inherited => ctx.edits.insert(vs, "pub ".to_string(), "D10", "type visibility widened to pub (single-file crate)".to_string()),
                    v => ctx.edits.replace(src.start(v), src.end(v), "pub".to_string(), "D10", "type visibility widened to pub (single-file crate)".to_string()),
                }
                let e = src.end(s);
                Ok((vs, e, src.start(s), e))
            }
            Found::Enum(s) => {
                strip_attrs(&mut ctx, &s.attrs);
                for v in s.variants.iter() {
                    strip_attrs(&mut ctx, &v.attrs);
                    for f in v.fields.iter() {
                        strip_attrs(&mut ctx, &f.attrs);
                    }
                }
                let vs = vis_or(src, &s.vis, &s.enum_token, &s.ident);
                let e = src.end(s);
                Ok((vs, e, src.start(s), e))
            }
            Found::Const(c) => {
                let vs = vis_or(src, &c.vis, &c.const_token, &c.ident);
                let e = src.end(c);
                Ok((vs, e, src.start(c), e))
            }
            Found::Type(c) => {
                let vs = vis_or(src, &c.vis, &c.type_token, &c.ident);
                let e = src.end(c);
                Ok((vs, e, src.start(c), e))
            }
            Found::Trait(t) => {
                strip_attrs(&mut ctx, &t.attrs);
                let vs = vis_or(src, &t.vis, &t.trait_token, &t.ident);
                let o = src.off(t.brace_token.span.open().start());
                if !req.trait_extra.trim().is_empty() {
                    ctx.edits.insert(o + 1, format!("\n{}\n", indent(&req.trait_extra, 4)), "D2", "ghost members added to trait".to_string());
                }
                for ti in &t.items {
                    if let syn::TraitItem::Fn(f) = ti {
                        strip_attrs(&mut ctx, &f.attrs);
                        if let Some(c) = req.methods.get(&f.sig.ident.to_string()) {
                            let params = param_names(&f.sig);
                            let c = ctx.subst_param_refs(c, &params);
                            if f.default.is_none() {
                                let semi = src.end(f);
                                ctx.edits.insert(semi - 1, format!("\n{}\n    ", indent(&c, 8)), "D2", format!("contract inserted on trait method {}", f.sig.ident));
                            }
                        }
                    }
                }
                let e = src.end(t);
                Ok((vs, e, src.start(t), e))
            }
        }
    })();
    match res {
        Err(e) => {
            out.error_kind = if e.starts_with("lost-anchor") { "lost-anchor" } else { "unsupported" }.to_string();
            out.error = e;
            out
        }
        Ok((s, e, full_s, full_e)) => {
            match ctx.edits.apply(src, s, e, &mut log, None) {
                Err(er) => {
                    out.error = er;
                    out.error_kind = "unsupported".to_string();
                    return out;
                }
                Ok(mut text) => {
                    let mut prefix = String::new();
                    if let Found::Struct(st) = find_item(all, &req.path).unwrap() {
                        let have = derive_list(&st.attrs);
                        let keep: Vec<String> = match &req.keep_derives {
                            Some(k) => k.iter().filter(|d| have.contains(d)).cloned().collect(),
                            None => have.iter().filter(|d| *d == "Clone" || *d == "Copy").cloned().collect(),
                        };
                        let dropped: Vec<String> = have.iter().filter(|d| !keep.contains(d)).cloned().collect();
                        if !keep.is_empty() {
                            prefix.push_str(&format!("#[derive({})]\n", keep.join(", ")));
                        }
                        if !dropped.is_empty() {
                            log.push(EditLog { kind: "D0".into(), line: src.line_of(full_s), detail: format!("derives dropped: {}", dropped.join(", ")) });
                        }
                        if req.derive_eq {
                            if !have.iter().any(|d| d == "PartialEq") {
                                out.error = format!("lost-anchor: {} no longer derives PartialEq", st.ident);
                                out.error_kind = "lost-anchor".into();
                                return out;
                            }
                            match expand_partial_eq(st, &req.subst) {
                                Ok(t) => {
                                    text.push_str("\n");
                                    text.push_str(&t);
                                    log.push(EditLog { kind: "D9".into(), line: src.line_of(full_s), detail: "derive(PartialEq) expanded to field-wise impl".into() });
                                }
                                Err(e) => {
                                    out.error = e;
                                    out.error_kind = "unsupported".into();
                                    return out;
                                }
                            }
                        }
                    }
                    for a in &req.attrs {
                        prefix.push_str(a);
                        prefix.push('\n');
                    }
                    if req.mode == "stub" {
                        prefix.push_str("#[verifier::external_body]\n");
                    }
                    out.text = format!("{}{}", prefix, text);
                }
            }
            out.ok = true;
            out.edits = log;
            out.start_line = src.line_of(full_s);
            out.end_line = src.line_of(full_e);
            out.source = src.text[full_s..full_e].to_string();
            out
        }
    }
}

fn expand_partial_eq(st: &syn::ItemStruct, subst: &BTreeMap<String, String>) -> Result<String, String> {
    let mut args = Vec::new();
    for p in &st.generics.params {
        let name = match p {
            syn::GenericParam::Type(t) => t.ident.to_string(),
            syn::GenericParam::Const(c) => c.ident.to_string(),
            syn::GenericParam::Lifetime(l) => l.lifetime.to_string(),
        };
        match subst.get(&name) {
            Some(v) => args.push(v.clone()),
            None => return Err(format!("unsupported: derive_eq on generic struct {} needs an instantiation of {}", st.ident, name)),
        }
    }
    let head = if args.is_empty() { st.ident.to_string() } else { format!("{}<{}>", st.ident, args.join(", ")) };
    let mut fields = Vec::new();
    for (i, f) in st.fields.iter().enumerate() {
        fields.push(match &f.ident {
            Some(id) => id.to_string(),
            None => i.to_string(),
        });
    }
    let spec = if fields.is_empty() { "true".to_string() } else { fields.iter().map(|f| format!("self.{} == other.{}", f, f)).collect::<Vec<_>>().join(" && ") };
    Ok(format!(
        "impl PartialEqSpecImpl for {h} {{\n    open spec fn obeys_eq_spec() -> bool {{ true }}\n    open spec fn eq_spec(&self, other: &Self) -> bool {{ {s} }}\n}}\nimpl PartialEq for {h} {{\n    fn eq(&self, other: &Self) -> (r: bool) {{ {s} }}\n}}\n",
        h = head,
        s = spec
    ))
}

#[derive(Serialize)]
struct Response {
    items: Vec<ItemOut>,
    scans: Vec<scan::ScanOut>,
}

fn main() {
    let mut input = String::new();
    use std::io::Read;
    std::io::stdin().read_to_string(&mut input).expect("stdin");
    let req: Request = match serde_json::from_str(&input) {
        Ok(r) => r,
        Err(e) => {
            eprintln!("vx-extract: bad request: {}", e);
            std::process::exit(2);
        }
    };
    // parse each file once
    let mut files: BTreeMap<String, Result<(Src, syn::File), String>> = BTreeMap::new();
    let mut need: Vec<String> = req.items.iter().map(|i| i.file.clone()).collect();
    for s in &req.scans {
        need.extend(s.files.iter().cloned());
    }
    for f in need {
        if files.contains_key(&f) {
            continue;
        }
        let p = format!("{}/{}", req.repo, f);
        let r = match std::fs::read_to_string(&p) {
            Err(e) => Err(format!("lost-anchor: cannot read {}: {}", p, e)),
            Ok(t) => match syn::parse_file(&t) {
                Err(e) => Err(format!("lost-anchor: cannot parse {}: {}", p, e)),
                Ok(ast) => Ok((Src::new(t), ast)),
            },
        };
        let _ = files.insert(f, r);
    }
    let mut items = Vec::new();
    for ir in &req.items {
        match files.get(&ir.file).unwrap() {
            Err(e) => items.push(ItemOut { id: ir.id.clone(), ok: false, error: e.clone(), error_kind: "lost-anchor".into(), file: ir.file.clone(), ..Default::default() }),
            Ok((src, ast)) => {
                let mut all = Vec::new();
                collect_items(&ast.items, "", &mut all);
                items.push(process_item(src, &all, ir));
            }
        }
    }
    let mut scans = Vec::new();
    for s in &req.scans {
        scans.push(scan::run(s, &files));
    }
    println!("{}", serde_json::to_string_pretty(&Response { items, scans }).unwrap());
}
