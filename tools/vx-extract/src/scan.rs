//! Site and shape scans over the same syn parse (side conditions of C03, C08, C15, C20).

use crate::{is_cfg_test_or_feature, path_last_ident, tokens_norm, type_last_ident, Src};
use quote::ToTokens;
use serde::{Deserialize, Serialize};
use std::collections::BTreeMap;
use syn::spanned::Spanned;
use syn::visit::Visit;

#[derive(Deserialize, Clone)]
pub struct ScanReq {
    pub id: String,
    /// constructs | calls | shape | unsafe | returns | literal_consts
    pub kind: String,
    pub files: Vec<String>,
    #[serde(default)]
    pub name: String,
}

#[derive(Serialize, Default)]
pub struct Site {
    pub file: String,
    pub line: usize,
    pub enclosing: String,
    pub text: String,
}

#[derive(Serialize, Default)]
pub struct Shape {
    pub file: String,
    pub name: String,
    pub kind: String,
    pub derives: Vec<String>,
    pub serde_attrs: Vec<String>,
    /// (field name or index, type text, serde attrs)
    pub fields: Vec<(String, String, Vec<String>)>,
    pub generics: String,
    pub all_fields_private: bool,
}

#[derive(Serialize, Default)]
pub struct ScanOut {
    pub id: String,
    pub ok: bool,
    pub error: String,
    pub sites: Vec<Site>,
    pub shapes: Vec<Shape>,
}

struct V<'a> {
    req: &'a ScanReq,
    file: String,
    src: &'a Src,
    enclosing: Vec<String>,
    self_ty: Vec<String>,
    sites: Vec<Site>,
    shapes: Vec<Shape>,
}

impl<'a> V<'a> {
    fn site<T: Spanned + ToTokens>(&mut self, t: &T) {
        let line = t.span().start().line;
        let mut text = t.to_token_stream().to_string();
        if text.len() > 160 {
            text.truncate(160);
        }
        self.sites.push(Site { file: self.file.clone(), line, enclosing: self.enclosing.last().cloned().unwrap_or_default(), text });
    }
    fn name_matches(&self, p: &syn::Path) -> bool {
        let last = path_last_ident(p);
        if last == self.req.name {
            return true;
        }
        if last == "Self" && p.segments.len() == 1 {
            return self.self_ty.last().map(|s| *s == self.req.name).unwrap_or(false);
        }
        false
    }
}

fn serde_attrs(attrs: &[syn::Attribute]) -> Vec<String> {
    attrs.iter().filter(|a| a.path().is_ident("serde")).map(|a| tokens_norm(&a.meta)).collect()
}

impl<'a, 'ast> Visit<'ast> for V<'a> {
    fn visit_item_mod(&mut self, m: &'ast syn::ItemMod) {
        if is_cfg_test_or_feature(&m.attrs) {
            return;
        }
        syn::visit::visit_item_mod(self, m);
    }
    fn visit_item_macro(&mut self, _m: &'ast syn::ItemMacro) {}
    fn visit_item_fn(&mut self, f: &'ast syn::ItemFn) {
        if is_cfg_test_or_feature(&f.attrs) {
            return;
        }
        self.enclosing.push(format!("fn {}", f.sig.ident));
        if self.req.kind == "returns" {
            if let syn::ReturnType::Type(_, ty) = &f.sig.output {
                if tokens_norm(&**ty).contains(&self.req.name) && matches!(f.vis, syn::Visibility::Public(_)) {
                    self.site(&f.sig);
                }
            }
        }
        if self.req.kind == "unsafe" && f.sig.unsafety.is_some() {
            self.site(&f.sig);
        }
        syn::visit::visit_item_fn(self, f);
        self.enclosing.pop();
    }
    fn visit_item_impl(&mut self, im: &'ast syn::ItemImpl) {
        if is_cfg_test_or_feature(&im.attrs) {
            return;
        }
        let ty = type_last_ident(&im.self_ty).unwrap_or_else(|| tokens_norm(&*im.self_ty));
        self.self_ty.push(ty.clone());
        for ii in &im.items {
            if let syn::ImplItem::Fn(f) = ii {
                if is_cfg_test_or_feature(&f.attrs) {
                    continue;
                }
                let tr = im.trait_.as_ref().map(|(_, p, _)| format!("{} for ", path_last_ident(p))).unwrap_or_default();
                self.enclosing.push(format!("impl {}{}::{}", tr, ty, f.sig.ident));
                if self.req.kind == "returns" {
                    if let syn::ReturnType::Type(_, rt) = &f.sig.output {
                        let public = matches!(f.vis, syn::Visibility::Public(_)) || im.trait_.is_some();
                        if tokens_norm(&**rt).contains(&self.req.name) && public {
                            self.site(&f.sig);
                        }
                    }
                }
                if self.req.kind == "unsafe" && f.sig.unsafety.is_some() {
                    self.site(&f.sig);
                }
                self.visit_block(&f.block);
                self.enclosing.pop();
            }
        }
        self.self_ty.pop();
    }
    fn visit_expr_call(&mut self, c: &'ast syn::ExprCall) {
        if let syn::Expr::Path(p) = &*c.func {
            if self.req.kind == "constructs" && self.name_matches(&p.path) {
                self.site(c);
                for a in &c.args {
                    self.visit_expr(a);
                }
                return;
            }
            if self.req.kind == "calls" && path_last_ident(&p.path) == self.req.name {
                self.site(c);
            }
        }
        syn::visit::visit_expr_call(self, c);
    }
    fn visit_expr_path(&mut self, p: &'ast syn::ExprPath) {
        // a tuple-struct constructor used as a function value, e.g. `.map(Self)`
        if self.req.kind == "constructs" && self.name_matches(&p.path) {
            self.site(p);
        }
        syn::visit::visit_expr_path(self, p);
    }
    fn visit_expr_struct(&mut self, s: &'ast syn::ExprStruct) {
        if self.req.kind == "constructs" && self.name_matches(&s.path) {
            self.site(s);
        }
        syn::visit::visit_expr_struct(self, s);
    }
    fn visit_expr_method_call(&mut self, m: &'ast syn::ExprMethodCall) {
        if self.req.kind == "calls" && m.method == self.req.name {
            self.site(m);
        }
        syn::visit::visit_expr_method_call(self, m);
    }
    fn visit_expr_unsafe(&mut self, u: &'ast syn::ExprUnsafe) {
        if self.req.kind == "unsafe" {
            self.site(u);
        }
        syn::visit::visit_expr_unsafe(self, u);
    }
    fn visit_item_struct(&mut self, s: &'ast syn::ItemStruct) {
        if self.req.kind == "shape" && (self.req.name.is_empty() || s.ident == self.req.name) {
            let mut sh = Shape { file: self.file.clone(), name: s.ident.to_string(), kind: "struct".into(), ..Default::default() };
            sh.derives = crate::derive_list(&s.attrs);
            sh.serde_attrs = serde_attrs(&s.attrs);
            sh.generics = tokens_norm(&s.generics);
            sh.all_fields_private = true;
            for (i, f) in s.fields.iter().enumerate() {
                let n = f.ident.as_ref().map(|i| i.to_string()).unwrap_or_else(|| i.to_string());
                if matches!(f.vis, syn::Visibility::Public(_)) {
                    sh.all_fields_private = false;
                }
                sh.fields.push((n, tokens_norm(&f.ty), serde_attrs(&f.attrs)));
            }
            self.shapes.push(sh);
        }
        let _ = self.src;
    }
    fn visit_item_enum(&mut self, s: &'ast syn::ItemEnum) {
        if self.req.kind == "shape" && (self.req.name.is_empty() || s.ident == self.req.name) {
            let mut sh = Shape { file: self.file.clone(), name: s.ident.to_string(), kind: "enum".into(), ..Default::default() };
            sh.derives = crate::derive_list(&s.attrs);
            sh.serde_attrs = serde_attrs(&s.attrs);
            for v in &s.variants {
                let tys: Vec<String> = v.fields.iter().map(|f| tokens_norm(&f.ty)).collect();
                sh.fields.push((v.ident.to_string(), tys.join(","), serde_attrs(&v.attrs)));
            }
            self.shapes.push(sh);
        }
    }
}

pub fn run(req: &ScanReq, files: &BTreeMap<String, Result<(Src, syn::File), String>>) -> ScanOut {
    let mut out = ScanOut { id: req.id.clone(), ok: true, ..Default::default() };
    for f in &req.files {
        match files.get(f) {
            Some(Ok((src, ast))) => {
                let mut v = V { req, file: f.clone(), src, enclosing: vec![], self_ty: vec![], sites: vec![], shapes: vec![] };
                v.visit_file(ast);
                out.sites.extend(v.sites);
                out.shapes.extend(v.shapes);
            }
            Some(Err(e)) => {
                out.ok = false;
                out.error = e.clone();
            }
            None => {
                out.ok = false;
                out.error = format!("file {} not loaded", f);
            }
        }
    }
    out
}
