//! axiom-audit: evaluates every algebraic axiom of verus/prelude/{core,algebra,pairing,misc}.rs on the real
//! bls12_381 implementation, over an edge lattice (0, 1, q-1, identity, generator) and random elements.
//! This TESTS the assumed contracts of the dependency; it decides no property.
use bls12_381::{multi_miller_loop, pairing, G1Affine, G1Projective, G2Affine, G2Prepared, G2Projective, Gt, Scalar};
use ff::Field;
use group::{Curve, Group, GroupEncoding};
use rand::SeedableRng;

fn main() {
    let seed: u64 = std::env::args().nth(1).and_then(|s| s.parse().ok()).unwrap_or(1);
    let rounds: usize = std::env::args().nth(2).and_then(|s| s.parse().ok()).unwrap_or(6);
    let mut rng = rand::rngs::StdRng::seed_from_u64(seed);
    let mut scalars = vec![Scalar::zero(), Scalar::one(), Scalar::zero() - Scalar::one(), Scalar::from(2), Scalar::from(u64::MAX)];
    for _ in 0..rounds { scalars.push(Scalar::random(&mut rng)); }
    let mut g1s = vec![G1Projective::identity(), G1Projective::generator()];
    let mut g2s = vec![G2Projective::identity(), G2Projective::generator()];
    for _ in 0..rounds.min(3) { g1s.push(G1Projective::random(&mut rng)); g2s.push(G2Projective::random(&mut rng)); }
    let mut checked = 0u64;
    macro_rules! ax { ($name:expr, $cond:expr) => {{ checked += 1; if !$cond { println!("AXIOM VIOLATED: {}", $name); std::process::exit(1); } }}; }

    // scalar field
    for a in &scalars { for b in &scalars {
        ax!("s_add_comm", a + b == b + a);
        ax!("s_mul_comm", a * b == b * a);
        for c in &scalars {
            ax!("s_add_assoc", (a + b) + c == a + (b + c));
            ax!("s_mul_assoc", (a * b) * c == a * (b * c));
            ax!("s_distrib", a * (b + c) == a * b + a * c);
        }
    }
        ax!("s_add_zero", a + Scalar::zero() == *a);
        ax!("s_add_neg", a + (-a) == Scalar::zero());
        ax!("s_sub_def", Scalar::zero() - a == -a);
        ax!("s_mul_one", a * Scalar::one() == *a);
        if !bool::from(a.is_zero()) { ax!("s_inv", a * a.invert().unwrap() == Scalar::one()); }
        ax!("s_is_zero", bool::from(a.is_zero()) == (*a == Scalar::zero()));
        // canonical bytes: injective, 32 bytes, from_bytes accepts exactly canonical encodings and is lossless
        let bytes = a.to_bytes();
        ax!("s_bytes_roundtrip", Option::<Scalar>::from(Scalar::from_bytes(&bytes)) == Some(*a));
        ax!("add_assign", { let mut x = *a; x += Scalar::one(); x == a + Scalar::one() });
        ax!("mul_assign", { let mut x = *a; x *= Scalar::from(128); x == a * Scalar::from(128) });
    }
    ax!("s_one_ne_zero", Scalar::one() != Scalar::zero());
    ax!("s_from_bytes_rejects_noncanonical", Option::<Scalar>::from(Scalar::from_bytes(&[0xff; 32])).is_none());
    // iota: ring homomorphism on u64
    for (x, y) in [(0u64, 0u64), (1, 1), (127, 128), (u32::MAX as u64, 3), (1 << 62, 1 << 62), (i64::MAX as u64, 1)] {
        ax!("s_int_add", Scalar::from(x) + Scalar::from(y) == Scalar::from_raw([x.wrapping_add(y), (x.checked_add(y).is_none()) as u64, 0, 0]));
        let p = (x as u128) * (y as u128);
        ax!("s_int_mul", Scalar::from(x) * Scalar::from(y) == Scalar::from_raw([p as u64, (p >> 64) as u64, 0, 0]));
        ax!("s_int_injective_u64", (Scalar::from(x) == Scalar::from(y)) == (x == y));
    }
    // groups as modules
    macro_rules! group_axioms { ($gs:expr, $G:ty) => {{
        for p in $gs.iter() { for q in $gs.iter() {
            ax!("g_add_comm", p + q == q + p);
            for r in $gs.iter() { ax!("g_add_assoc", (p + q) + r == p + (q + r)); }
            for a in scalars.iter().take(7) { ax!("g_mul_add_point", (p + q) * a == p * a + q * a); }
        }
            ax!("g_add_zero", p + <$G>::identity() == *p);
            ax!("g_add_neg", p + (-p) == <$G>::identity());
            ax!("g_sub_def", p - p == <$G>::identity());
            ax!("g_mul_one", p * Scalar::one() == *p);
            ax!("affine_projective_identified", <$G>::from(p.to_affine()) == *p);
            ax!("is_identity", bool::from(p.is_identity()) == (*p == <$G>::identity()));
            ax!("to_bytes_is_compressed", p.to_bytes().as_ref() == p.to_affine().to_compressed().as_ref());
            for a in scalars.iter().take(8) { for b in scalars.iter().take(8) {
                ax!("g_mul_add_scalar", p * (a + b) == p * a + p * b);
                ax!("g_mul_mul", (p * a) * b == p * (a * b));
            }
                ax!("g_prime_order", !(p * a == <$G>::identity()) || bool::from(a.is_zero()) || bool::from(p.is_identity()));
            }
        }
    }}; }
    group_axioms!(g1s, G1Projective);
    group_axioms!(g2s, G2Projective);
    // pairing
    for a in g1s.iter() { for b in g2s.iter() {
        let (aa, ba) = (a.to_affine(), b.to_affine());
        let e = pairing(&aa, &ba);
        ax!("pair_nondegenerate", !(e == Gt::identity()) || bool::from(a.is_identity()) || bool::from(b.is_identity()));
        for a2 in g1s.iter().take(3) { ax!("pair_add_left", pairing(&(a + a2).to_affine(), &ba) == e + pairing(&a2.to_affine(), &ba)); }
        for b2 in g2s.iter().take(3) { ax!("pair_add_right", pairing(&aa, &(b + b2).to_affine()) == e + pairing(&aa, &b2.to_affine())); }
        for s in scalars.iter().take(7) {
            ax!("pair_scalar", pairing(&(a * s).to_affine(), &ba) == pairing(&aa, &(b * s).to_affine()));
            ax!("pair_pow", pairing(&aa, &(b * s).to_affine()) == e * s);
        }
        // multi_miller_loop(..).final_exponentiation() is the product of the pairings
        let (b1, b2) = (G2Prepared::from(ba), G2Prepared::from((-b).to_affine()));
        let prod = multi_miller_loop(&[(&aa, &b1), (&aa, &b2)]).final_exponentiation();
        ax!("miller_loop_is_pairing_product", prod == e + pairing(&aa, &(-b).to_affine()));
        ax!("pair_neg_right_cancels", prod == Gt::identity());
    } }
    // compressed encodings: decoders accept only valid elements and round-trip
    for a in g1s.iter() { let c = a.to_affine().to_compressed(); ax!("g1_from_compressed_roundtrip", Option::<G1Affine>::from(G1Affine::from_compressed(&c)) == Some(a.to_affine())); }
    for b in g2s.iter() { let c = b.to_affine().to_compressed(); ax!("g2_from_compressed_roundtrip", Option::<G2Affine>::from(G2Affine::from_compressed(&c)) == Some(b.to_affine())); }
    ax!("g1_from_compressed_rejects_garbage", Option::<G1Affine>::from(G1Affine::from_compressed(&[0x11; 48])).is_none());
    println!("AXIOM-AUDIT OK: {} instances of {} axiom families hold on bls12_381 0.4 (seed {})", checked, 45, seed);
}
