#!/usr/bin/env python3
"""seed_eval.py <worktree> <mutant-name> <seed-id> <property> <demo-target-file> <demo-test-filter> [--crate C] [--features F] [--skip-confirm]

1. confirms a seeded change in its scratch worktree (full suite passes with it; demo fails with it, passes without);
2. applies it to /repo, runs every property's quick check, undoes it (git checkout -- .);
3. stores patch.diff, the demonstration and meta.json under /verif/seeded/<seed-id>/.
"""
import argparse
import json
import os
import re
import shutil
import subprocess
import sys
import time

VERIF = os.path.dirname(os.path.dirname(os.path.abspath(__file__)))


def sh(cmd, cwd=None, env=None, timeout=3600):
    p = subprocess.run(cmd, shell=True, cwd=cwd, env=env, capture_output=True, text=True, timeout=timeout)
    return p.returncode, p.stdout + p.stderr


def main():
    ap = argparse.ArgumentParser()
    ap.add_argument("wt")
    ap.add_argument("mutant")
    ap.add_argument("seed_id")
    ap.add_argument("prop")
    ap.add_argument("demo_target")
    ap.add_argument("demo_filter")
    ap.add_argument("--crate", default="")
    ap.add_argument("--features", default="")
    ap.add_argument("--demo-file", default="demo.rs")
    ap.add_argument("--demo-mode", default="append", help="append | file (copy to demo_target)")
    ap.add_argument("--demo2-file", default="", help="optional second demo file (appended to --demo2-target)")
    ap.add_argument("--demo2-target", default="")
    ap.add_argument("--pre", default="", help="shell command run in the worktree after the demo is placed (e.g. add a dev-dependency); undone by git checkout")
    ap.add_argument("--skip-confirm", action="store_true")
    ap.add_argument("--needs", default="")
    ap.add_argument("--props", default="", help="comma list of properties to run (default: all)")
    ap.add_argument("--scratch", action="store_true", help="run the checks against a scratch export of /repo HEAD with the patch applied (VERIF_REPO), props in parallel, instead of patching /repo itself")
    ap.add_argument("--confirm-only", action="store_true")
    ap.add_argument("--par", type=int, default=4)
    a = ap.parse_args()
    wt = a.wt
    md = os.path.join(wt, "mutants", a.mutant)
    if a.skip_confirm and not os.path.exists(md):
        md = os.path.join(VERIF, "seeded", a.seed_id)
    patch = os.path.join(md, "patch.diff")
    demo = os.path.join(md, a.demo_file)
    env = dict(os.environ, CARGO_TARGET_DIR=os.path.join(wt, "target"), CARGO_NET_OFFLINE="true")
    ran = []
    crate = ("-p %s " % a.crate) if a.crate else ""
    feats = ("--features %s " % a.features) if a.features else ""
    confirm = {}

    def put_demo():
        if a.pre:
            sh(a.pre, cwd=wt)
        if a.demo2_file:
            with open(os.path.join(wt, a.demo2_target), "a") as f:
                f.write("\n" + open(os.path.join(md, a.demo2_file)).read())
        if a.demo_mode == "append":
            with open(os.path.join(wt, a.demo_target), "a") as f:
                f.write("\n" + open(demo).read())
        else:
            os.makedirs(os.path.dirname(os.path.join(wt, a.demo_target)), exist_ok=True)
            shutil.copy(demo, os.path.join(wt, a.demo_target))

    def clean():
        sh("git checkout -- . && git clean -fdq -e mutants -e target", cwd=wt)

    if not a.skip_confirm:
        clean()
        rc, out = sh("git apply %s" % patch, cwd=wt)
        if rc != 0:
            print("patch does not apply in worktree:", out)
            return 2
        cmd = "cargo test --workspace --no-fail-fast --offline"
        rc, out = sh(cmd, cwd=wt, env=env)
        passed = sum(int(x) for x in re.findall(r"(\d+) passed", out))
        failed = sum(int(x) for x in re.findall(r"(\d+) failed", out))
        confirm["suite_with_change"] = {"cmd": cmd, "rc": rc, "passed": passed, "failed": failed}
        ran.append("%s (with change) -> rc=%d, %d passed, %d failed" % (cmd, rc, passed, failed))
        put_demo()
        dcmd = "cargo test %s%s--offline %s" % (crate, feats, a.demo_filter)
        rc1, out1 = sh(dcmd, cwd=wt, env=env)
        confirm["demo_with_change"] = {"cmd": dcmd, "rc": rc1, "tail": out1[-1500:]}
        ran.append("%s (with change) -> rc=%d" % (dcmd, rc1))
        clean()
        put_demo()
        rc2, out2 = sh(dcmd, cwd=wt, env=env)
        ran_tests = sum(int(x) for x in re.findall(r"(\d+) passed", out2))
        confirm["demo_without_change"] = {"cmd": dcmd, "rc": rc2, "passed": ran_tests, "tail": out2[-800:]}
        ran.append("%s (without change) -> rc=%d, %d passed" % (dcmd, rc2, ran_tests))
        clean()
        ok = confirm["suite_with_change"]["rc"] == 0 and failed == 0 and rc1 != 0 and rc2 == 0 and ran_tests >= 1
        confirm["confirmed"] = ok
        print("CONFIRM %s: suite rc=%d passed=%d failed=%d | demo with=%d without=%d (ran %d) => %s" % (a.seed_id, confirm["suite_with_change"]["rc"], passed, failed, rc1, rc2, ran_tests, "CONFIRMED" if ok else "NOT CONFIRMED"))
        if not ok:
            print(out1[-1500:])
            print(out2[-800:])
            return 1

    if a.confirm_only:
        dst = os.path.join(VERIF, "seeded", a.seed_id)
        os.makedirs(dst, exist_ok=True)
        shutil.copy(patch, os.path.join(dst, "patch.diff"))
        shutil.copy(demo, os.path.join(dst, os.path.basename(demo)))
        if a.demo2_file:
            shutil.copy(os.path.join(md, a.demo2_file), os.path.join(dst, a.demo2_file))
        if os.path.exists(os.path.join(md, "README.md")):
            shutil.copy(os.path.join(md, "README.md"), os.path.join(dst, "README.md"))
        meta = {"seed_id": a.seed_id, "breaks_property": a.prop, "needs_to_manifest": a.needs,
                "demo": {"file": os.path.basename(demo), "placement": "%s %s" % (a.demo_mode, a.demo_target) + ((" ; append %s to %s" % (a.demo2_file, a.demo2_target)) if a.demo2_file else ""), "test_filter": a.demo_filter, "crate": a.crate, "features": a.features},
                "confirmation": confirm, "what_i_ran": ran, "checks": {}}
        json.dump(meta, open(os.path.join(dst, "meta.json"), "w"), indent=1)
        return 0

    props = a.props.split(",") if a.props else ["C%02d" % i for i in range(1, 21)]
    results = {}

    def run_prop(p, extra_env=None):
        t0 = time.time()
        e = dict(os.environ)
        e.update(extra_env or {})
        rc, out = sh("bin/check %s%s" % (p, " --no-evidence" if extra_env else ""), cwd=VERIF, env=e, timeout=3000)
        lines = [l for l in out.split("\n") if l.startswith(("VIOLATION", "MACHINERY", "OK ", "KNOWN-FINDING"))]
        results[p] = {"rc": rc, "lines": [l[:400] for l in lines][:6], "wall_s": round(time.time() - t0, 1)}
        print("  %s rc=%d %s" % (p, rc, (lines[0][:200] if lines else out[-200:])), flush=True)

    if a.scratch:
        import tempfile
        from concurrent.futures import ThreadPoolExecutor
        sd = tempfile.mkdtemp(prefix="vf_seed.", dir="/tmp")
        try:
            rc, out = sh("git -C /repo archive HEAD | tar -x -C %s && cd %s && patch -p1 -s < %s" % (sd, sd, patch))
            if rc != 0:
                print("patch does not apply to an export of /repo HEAD:", out)
                return 2
            with ThreadPoolExecutor(max_workers=a.par) as ex:
                list(ex.map(lambda p: run_prop(p, {"VERIF_REPO": sd, "VERIF_WORK": os.path.join(sd + "_work", p), "VERIF_JOBS": "6"}), props))
        finally:
            shutil.rmtree(sd, ignore_errors=True)
            shutil.rmtree(sd + "_work", ignore_errors=True)
    else:
        # apply to /repo, run the checks, undo
        rc, out = sh("git -C /repo status --porcelain")
        if out.strip():
            print("/repo is not clean:", out)
            return 2
        rc, out = sh("git -C /repo apply %s" % patch)
        if rc != 0:
            print("patch does not apply to /repo:", out)
            return 2
        try:
            for p in props:
                run_prop(p)
        finally:
            sh("git -C /repo checkout -- .")
    caught = sorted(p for p, r in results.items() if r["rc"] == 1)
    undecided = sorted(p for p, r in results.items() if r["rc"] == 2)
    dst = os.path.join(VERIF, "seeded", a.seed_id)
    os.makedirs(dst, exist_ok=True)
    if os.path.abspath(md) != os.path.abspath(dst):
        shutil.copy(patch, os.path.join(dst, "patch.diff"))
        shutil.copy(demo, os.path.join(dst, os.path.basename(demo)))
        if os.path.exists(os.path.join(md, "README.md")):
            shutil.copy(os.path.join(md, "README.md"), os.path.join(dst, "README.md"))
    old = {}
    if a.skip_confirm and os.path.exists(os.path.join(dst, "meta.json")):
        old = json.load(open(os.path.join(dst, "meta.json")))
        confirm = old.get("confirmation", confirm)
        ran = old.get("what_i_ran", ran)
        if not a.needs:
            a.needs = old.get("needs_to_manifest", "")
    meta = {
        "seed_id": a.seed_id,
        "breaks_property": a.prop,
        "needs_to_manifest": a.needs,
        "demo": old.get("demo") or {"file": os.path.basename(demo), "placement": "%s %s" % (a.demo_mode, a.demo_target), "test_filter": a.demo_filter, "crate": a.crate, "features": a.features},
        "confirmation": confirm,
        "what_i_ran": ran,
        "checks": {"mode": "scratch export of /repo HEAD + patch (VERIF_REPO)" if a.scratch else "git -C /repo apply; bin/check; git -C /repo checkout -- .", "caught_by": caught, "undecided_exit2": undecided, "target_property_caught": a.prop in caught, "results": results},
    }
    json.dump(meta, open(os.path.join(dst, "meta.json"), "w"), indent=1)
    print("SEED %s breaks %s: caught by %s; exit-2 in %s" % (a.seed_id, a.prop, caught, undecided))
    return 0


if __name__ == "__main__":
    sys.exit(main())
