#!/bin/bash
# Build the framework's own tools from files on disk only (offline).
set -e
cd /verif/tools/vx-extract
CARGO_NET_OFFLINE=true cargo build --release --offline 2>&1 | tail -3
cd /verif/tools/axiom-audit
CARGO_NET_OFFLINE=true cargo build --release --offline 2>&1 | tail -3
