#!/bin/bash
# evaluate seeded changes (run from a snapshot of /verif: `vp run -- bash bin/seed_batch2.sh`)
export VX_EXTRACT=/verif/tools/vx-extract/target/release/vx-extract
export VERIF_CACHE=/verif/.cache
E="python3 bin/seed_eval.py"
$E /tmp/wt_C04 initialize-total-cap C04-initialize-total-cap C04 zkabacus-crypto/tests/c04_initialize_total_cap.rs "--test c04_initialize_total_cap" --crate zkabacus-crypto --demo-mode file --needs "initial balances whose sum exceeds 2^63-1"
$E /tmp/wt_C04 offset-exclusive-max C04-offset-exclusive-max C04 zkabacus-crypto/tests/c04_offset_exclusive_max.rs "--test c04_offset_exclusive_max" --crate zkabacus-crypto --demo-mode file --needs "a payment whose result balance is exactly 2^63-1"
$E /tmp/wt_C06 channel-id-scalar-clamp C06-channel-id-scalar-clamp C06 zkabacus-crypto/src/states.rs c06_channel_id_demo --crate zkabacus-crypto --needs "two channel ids differing only in bits 6/7 of the last byte"
$E /tmp/wt_C06 range-params-pk-only-challenge C06-range-params-pk-only-challenge C06 zkabacus-crypto/src/proofs.rs c06_range_params_demo --crate zkabacus-crypto --features bincode --needs "range parameters sharing the public key but with different digit signatures"
$E /tmp/wt_C08 g1-decode-unchecked C08-g1-decode-unchecked C08 zkchannels-crypto/tests/c08_demo_g1_decode_unchecked.rs "--test c08_demo_g1_decode_unchecked" --crate zkchannels-crypto --features bincode --demo-mode file --needs "crafted serialized request with a small-order torsion component and a grinded challenge"
$E /tmp/wt_C08 verify-skip-zero C08-verify-skip-zero C08 zkchannels-crypto/tests/c08_demo_verify_skip_zero.rs "--test c08_demo_verify_skip_zero" --crate zkchannels-crypto --demo-mode file --needs "message tuple with a zero entry followed by a non-zero one"
$E /tmp/wt_C09 merge-equal-exponents C09-merge-equal-exponents C09 zkchannels-crypto/tests/c09_demo_merge.rs "--test c09_demo_merge" --crate zkchannels-crypto --demo-mode file --needs "a message entry equal to the (non-zero) blinding factor"
$E /tmp/wt_C09 reject-identity-commitment C09-reject-identity-commitment C09 zkchannels-crypto/src/pedersen.rs "--lib c09_demo_identity" --crate zkchannels-crypto --needs "an opening whose commitment is the group identity (all-zero message and blinding factor, or a cancelling sum)"
$E /tmp/wt_C14 payproof-close-tag-scalar-reuse C14-payproof-close-tag-scalar-reuse C14 zkabacus-crypto/src/proofs.rs c14_nonce_demo --crate zkabacus-crypto --needs "a curious merchant computing (z[1]-s)/c from one pay proof and a second payment on the same channel"
$E /tmp/wt_C14 started-close-stale-signature C14-started-close-stale-signature C14 zkabacus-crypto/src/customer.rs c14_close_demo --crate zkabacus-crypto --needs "closing from the Started stage after a refused reply"
$E /tmp/wt_C11 schnorr-either-sign C11-schnorr-either-sign C11 zkchannels-crypto/src/proofs/commitment.rs "--lib c11_demo" --crate zkchannels-crypto --needs "a transcript for the negated challenge or the negated commitment"
$E /tmp/wt_C11 sigproof-drop-wellformed C11-sigproof-drop-wellformed C11 zkchannels-crypto/tests/c11_identity_signature.rs "--test c11_identity_signature" --crate zkchannels-crypto --demo-mode file --needs "re-randomizer 0 (all-zero RNG) giving the all-identity blinded signature"
for d in seeded/*/; do
  id=$(basename $d); prop=${id%%-*}
  case $id in C04-*|C06-*|C08-*|C09-*|C11-*|C14-*) continue;; esac
  python3 bin/seed_eval.py /nonexistent x $id $prop x x --skip-confirm 2>&1 | grep -E '^SEED'
done
echo BATCH2-DONE
