#!/usr/bin/env python3
"""Verus lane of /verif: extract real functions from /repo, attach contracts, assemble units, verify.

See DESIGN.md section 2.1.  Nothing here contains repository code: function text always comes from
tools/vx-extract slicing /repo's current working tree.
"""
import hashlib
import json
import os
import re
import subprocess
import sys
import time
from concurrent.futures import ThreadPoolExecutor

VERIF = os.path.dirname(os.path.dirname(os.path.abspath(__file__)))
REPO = os.environ.get("VERIF_REPO", "/repo")
EXTRACT = os.environ.get("VX_EXTRACT", os.path.join(VERIF, "tools/vx-extract/target/release/vx-extract"))
WORK = os.environ.get("VERIF_WORK", os.path.join(VERIF, "work"))

SEMANTIC = (
    "postcondition not satisfied",
    "precondition not satisfied",
    "precondition not met",
    "assertion failed",
    "invariant not satisfied",
    "possible arithmetic underflow/overflow",
    "possible division by zero",
    "possible bit shift underflow/overflow",
    "index out of bounds",
    "decreases not satisfied",
    "unreachable",
    "loop invariant",
    "could not prove termination",
    "cannot show invariant holds",
    "requirement not satisfied",
    "unable to prove",
)


class Machinery(Exception):
    """Machinery trouble (exit 2): lost anchor, unsupported construct, tool failure. Never an alarm."""


# ------------------------------------------------------------------------------------------------
# vspec parsing


def _parse_blocks(path):
    """Line-based format: '### id' starts an item; 'key: value' or 'key:' + indented block."""
    items = []
    cur = None
    key = None
    header = {}
    with open(path) as f:
        lines = f.read().split("\n")
    target = header
    for ln in lines:
        if ln.startswith("### "):
            cur = {"id": ln[4:].strip()}
            items.append(cur)
            target = cur
            key = None
            continue
        if ln.startswith("#") and not ln.startswith("#["):
            continue
        m = re.match(r"^([A-Za-z_][A-Za-z0-9_ :\.]*?):\s?(.*)$", ln)
        if m and not ln[0].isspace():
            key = m.group(1).strip()
            val = m.group(2)
            target[key] = val
            continue
        if key is not None and (ln.startswith(" ") or ln.startswith("\t") or ln == ""):
            target[key] = (target[key] + "\n" + ln) if target[key] != "" else ln
            continue
        if ln.strip() == "":
            continue
        raise Machinery("vspec parse error in %s: %r" % (path, ln))
    return header, items


def load_contracts():
    """All verus/contracts/**/*.vspec -> {id: item}"""
    out = {}
    root = os.path.join(VERIF, "verus/contracts")
    for d, _, fs in sorted(os.walk(root)):
        for fn in sorted(fs):
            if not fn.endswith(".vspec"):
                continue
            p = os.path.join(d, fn)
            header, items = _parse_blocks(p)
            prefix = header.get("prefix", "").strip()
            for it in items:
                it.setdefault("file", header.get("file", "").strip())
                it.setdefault("module", header.get("module", "").strip())
                it.setdefault("paths", header.get("paths", ""))
                it.setdefault("module_uses", header.get("module_uses", ""))
                it["file"] = it["file"].strip()
                iid = (prefix + "." if prefix else "") + it["id"]
                it["id"] = iid
                it["vspec"] = os.path.relpath(p, VERIF)
                if iid in out:
                    raise Machinery("duplicate contract id %s" % iid)
                out[iid] = it
    return out


def load_unit(name):
    p = os.path.join(VERIF, "verus/units", name + ".unit")
    header, items = _parse_blocks(p)
    if items:
        raise Machinery("unit files have no ### sections: %s" % p)
    header["name"] = name
    return header


def parse_insts(s):
    res = []
    for part in s.split("|"):
        part = part.strip()
        if not part:
            continue
        d = {}
        for kv in part.split():
            k, v = kv.split("=", 1)
            d[k] = v
        res.append(d)
    return res or [{}]


def inst_name(inst):
    return "_".join("%s%s" % (k, re.sub(r"[^A-Za-z0-9]", "", v)) for k, v in sorted(inst.items()) if not k.startswith("__")) or "base"


def subst_vars(text, inst):
    if not text:
        return text
    for k in sorted(inst, key=len, reverse=True):
        if k.startswith("__"):
            continue
        text = text.replace("${%s}" % k, inst[k])
    alias = inst.get("__alias__")
    if alias:
        for old, new in alias.items():
            # field accesses `.old` and struct-literal / pattern fields `old:`
            text = re.sub(r"(?<=\.)%s\b" % re.escape(old), new, text)
            text = re.sub(r"(?<![\w\.:])%s(?=\s*:(?!:))" % re.escape(old), new, text)
    return text


def field_aliases(unit, contracts):
    """A private field renamed in /repo: contracts name fields, so map the pinned name to the current one
    when the struct still has the same number of fields and the pinned name is unambiguous (DESIGN 10)."""
    reqs = []
    for mode in ("decl",):
        for tok in unit.get(mode, "").split():
            cid = tok.split("{")[0]
            c = contracts.get(cid)
            if c and c.get("fields"):
                reqs.append({"id": cid, "file": c["file"], "path": c["path"].strip(), "mode": "decl"})
    if not reqs:
        return {}, []
    outs = run_extract(reqs)
    expected_all = {}
    for r in reqs:
        for f in contracts[r["id"]]["fields"].split():
            expected_all.setdefault(f, set()).add(r["id"])
    alias, notes = {}, []
    for o in outs["items"]:
        if not o["ok"]:
            continue
        exp = contracts[o["id"]]["fields"].split()
        act = o.get("fields", [])
        if exp == act or len(exp) != len(act):
            continue
        for e, a in zip(exp, act):
            if e != a:
                if a in exp or len(expected_all.get(e, ())) > 1 or e in alias:
                    notes.append("field %s of %s renamed to %s but the name is ambiguous: no alias" % (e, o["id"], a))
                    continue
                alias[e] = a
                notes.append("contract field alias: %s.%s is now called %s" % (o["id"], e, a))
    return alias, notes


# ------------------------------------------------------------------------------------------------
# extraction


def build_request(unit, inst, contracts):
    reqs = []
    order = []
    for mode in ("decl", "body", "stub", "slice"):
        for tok in unit.get(mode, "").split():
            m = re.match(r"^([^{]+)(?:\{(.*)\})?$", tok)
            iid, ov = m.group(1), m.group(2)
            if iid not in contracts:
                raise Machinery("unit %s names unknown contract item %s" % (unit["name"], iid))
            over = dict(kv.split("=", 1) for kv in ov.split(",")) if ov else {}
            order.append((mode, iid, tok, over))
    for mode, iid, tok, over in order:
        c = contracts[iid]
        uinst = inst
        inst = dict(uinst)
        inst.update(over)
        sub = {}
        default_subst = c.get("subst " + mode, c.get("subst"))
        if default_subst is None:
            default_subst = " ".join("%s=${%s}" % (k, k) for k in inst if not k.startswith("__"))
        for kv in subst_vars(default_subst, inst).split():
            k, v = kv.split("=", 1)
            sub[k] = v
        req = {
            "id": tok,
            "cid": iid,
            "file": c["file"],
            "path": c["path"].strip(),
            "mode": mode,
            "subst": sub,
            "contract": subst_vars(c.get("contract " + mode, c.get("contract", "")), inst),
            "closures": {},
            "loops": {},
            "proofs": {},
            "attrs": [a.strip() for a in subst_vars(c.get("attrs", ""), inst).split("\n") if a.strip()],
            "derive_eq": c.get("derive_eq", "").strip() == "true",
            "trait_extra": subst_vars(c.get("trait_extra", ""), inst),
            "methods": {},
            "paths": dict(kv.split("=", 1) for kv in c.get("paths", "").split() if "=" in kv),
            "_module": c.get("module", ""),
            "option_map": [int(x) for x in c.get("option_map", "").split()] if mode == "body" else [],
            "stmts": [int(x) for x in c.get("stmts", "").split()],
            "stmts_until": c.get("stmts_until", "").strip(),
            "_slice_header": subst_vars(c.get("slice_header", ""), inst),
            "_slice_footer": subst_vars(c.get("slice_footer", ""), inst),
        }
        if c.get("ret", "").strip():
            req["ret_name"] = c["ret"].strip()
        if c.get("keep_derives") is not None:
            req["keep_derives"] = c["keep_derives"].split()
        if c.get("rename", "").strip():
            req["rename_fn"] = subst_vars(c["rename"].strip(), inst)
        for k, v in c.items():
            m = re.match(r"^closure (\d+)( ret)?$", k)
            if m:
                d = req["closures"].setdefault(m.group(1), {"ret": "", "spec": ""})
                d["ret" if m.group(2) else "spec"] = subst_vars(v, inst).strip() if m.group(2) else subst_vars(v, inst)
            m = re.match(r"^loop (\d+)( iter)?$", k)
            if m:
                d = req["loops"].setdefault(m.group(1), {"iter": "", "inv": ""})
                if m.group(2):
                    d["iter"] = v.strip()
                else:
                    d["inv"] = subst_vars(v, inst)
            m = re.match(r"^proof ([\w\.]+)$", k)
            if m and mode in ("body", "slice"):
                req["proofs"][m.group(1).replace(".", ":")] = subst_vars(v, inst)
            m = re.match(r"^method (\w+)$", k)
            if m:
                req["methods"][m.group(1)] = subst_vars(v, inst)
        if mode not in ("body", "slice"):
            req["closures"] = {}
            req["loops"] = {}
        # shape guard: fingerprints of the statements the ordinal anchors pointed at on the unchanged tree (verus/shapes.json)
        sh = shapes().get(iid)
        if sh and mode in ("body", "slice"):
            for key in req["proofs"]:
                try:
                    if key.isdigit():
                        req.setdefault("proof_expect", {})[key] = sh["stmts"][int(key)]
                        req.setdefault("proof_expect_len", {})[key] = len(sh["stmts"])
                    elif key.startswith("loop"):
                        j, k = key[4:].split(":")
                        req.setdefault("proof_expect", {})[key] = sh["loops"][int(j)][int(k)]
                        req.setdefault("proof_expect_len", {})[key] = len(sh["loops"][int(j)])
                except (IndexError, ValueError, KeyError):
                    pass
            if mode == "slice" and len(req["stmts"]) == 2 and not req["stmts_until"]:
                try:
                    req["stmts_expect"] = [sh["stmts"][req["stmts"][0]], sh["stmts"][req["stmts"][1] - 1]]
                    req["stmts_expect_len"] = len(sh["stmts"])
                except IndexError:
                    pass
        req["_inst"] = dict(inst)
        reqs.append(req)
        inst = uinst
    return reqs


_SHAPES = None


def shapes():
    """cid -> {"stmts": [fingerprint of each top-level statement], "loops": [[...]]} as recorded on the unchanged tree"""
    global _SHAPES
    if _SHAPES is None:
        p = os.path.join(VERIF, "verus", "shapes.json")
        _SHAPES = json.load(open(p)) if os.path.exists(p) else {}
    return _SHAPES


def record_shapes():
    """developer command (run on the UNCHANGED tree only): record statement fingerprints of every function whose contract
    uses ordinal anchors (proof hints, statement ranges of slices)"""
    global _SHAPES
    _SHAPES = {}
    contracts = load_contracts()
    out = {}
    for uf in sorted(os.listdir(os.path.join(VERIF, "verus", "units"))):
        if not uf.endswith(".unit"):
            continue
        u = load_unit(uf[:-5])
        for inst in parse_insts(u.get("inst quick", ""))[:1]:
            reqs = [r for r in build_request(u, inst, contracts) if r["mode"] in ("body", "slice")]
            if not reqs:
                continue
            res = run_extract([{k: v for k, v in r.items() if not k.startswith("_") and k != "cid"} for r in reqs])
            for r, o in zip(reqs, res["items"]):
                if o["ok"] and o.get("stmt_fps") is not None:
                    out[r["cid"]] = {"stmts": o["stmt_fps"], "loops": o.get("loop_fps", []), "n_closures": o.get("n_closures", 0), "n_loops": o.get("n_loops", 0)}
    with open(os.path.join(VERIF, "verus", "shapes.json"), "w") as f:
        json.dump(out, f, indent=1, sort_keys=True)
    print("recorded shapes of %d functions" % len(out))


def run_extract(reqs, scans=None):
    if not os.path.exists(EXTRACT):
        raise Machinery("vx-extract not built; run bin/setup.sh")
    inp = json.dumps({"repo": REPO, "items": reqs, "scans": scans or []})
    p = subprocess.run([EXTRACT], input=inp, capture_output=True, text=True)
    if p.returncode != 0:
        raise Machinery("vx-extract failed: %s" % p.stderr[-2000:])
    return json.loads(p.stdout)


# ------------------------------------------------------------------------------------------------
# assembly

IMPORTS = """use vstd::prelude::*;
use vstd::std_specs::ops::*;
use vstd::std_specs::cmp::*;
use vstd::std_specs::convert::*;
use vstd::std_specs::iter::IteratorSpec;
use core::ops::{Add, Mul, Sub, Neg, AddAssign, MulAssign, Deref};
use core::convert::{TryFrom, TryInto};
use core::iter::{self, Iterator};
"""

HEADER = """#![feature(allocator_api)]
#![allow(unused_imports, dead_code, unused_variables, unused_mut, unused_parens, non_snake_case, unused_braces)]
""" + IMPORTS


class Assembled:
    def __init__(self):
        self.lines = []
        self.origin = []  # per line: (section, item id or None)

    def add(self, text, section, iid=None):
        for ln in text.split("\n"):
            self.lines.append(ln)
            self.origin.append((section, iid))

    def text(self):
        return "\n".join(self.lines) + "\n"


def expand_for(text):
    """//@for A,B in a1,b1 | a2,b2 ... //@end : textual repetition with @A@ placeholders."""
    out = []
    lines = text.split("\n")
    i = 0
    while i < len(lines):
        m = re.match(r"^//@for\s+([\w,]+)\s+in\s+(.*)$", lines[i])
        if not m:
            out.append(lines[i])
            i += 1
            continue
        names = m.group(1).split(",")
        rows = [[c.strip() for c in r.split(",")] for r in m.group(2).split("|")]
        j = i + 1
        body = []
        while not lines[j].startswith("//@end"):
            body.append(lines[j])
            j += 1
        for r in rows:
            for b in body:
                for n, v in zip(names, r):
                    b = b.replace("@%s@" % n, v)
                out.append(b)
        i = j + 1
    return "\n".join(out)


def strip_proof_bodies(text):
    """lemma files keep the body of every `pub proof fn` between a line `{` and a line `}` at column 0"""
    out = []
    lines = text.split("\n")
    i = 0
    while i < len(lines):
        ln = lines[i]
        if ln.startswith("pub proof fn "):
            out.append("#[verifier::external_body] " + ln)
            i += 1
            while i < len(lines) and lines[i] != "{":
                out.append(lines[i])
                i += 1
            if i >= len(lines):
                raise Machinery("lemma file style: body of a proof fn must open with `{` on its own line")
            out.append("{ }")
            while i < len(lines) and lines[i] != "}":
                i += 1
            i += 1
            continue
        out.append(ln)
        i += 1
    return "\n".join(out)


def read_fragments(kind, names, inst):
    out = []
    for n in names.split():
        p = os.path.join(VERIF, "verus", kind, n)
        with open(p) as f:
            out.append((n, expand_for(subst_vars(f.read(), inst))))
    return out


def assemble(unit, inst, contracts, outs):
    a = Assembled()
    a.add(HEADER, "header")
    a.add("verus! {", "header")
    # prelude and mathematics live in their own module so that the module-level `broadcast use`
    # of the code module cannot be cyclic with the definitions the lemmas are about
    a.add("pub mod base {", "header")
    a.add(IMPORTS, "header")
    for n, t in read_fragments("prelude", unit.get("prelude", ""), inst):
        a.add("// ===== prelude/%s (ASSUMED contracts of dependencies)" % n, "prelude")
        a.add(t, "prelude:" + n)
    for n, t in read_fragments("math", unit.get("math", ""), inst):
        a.add("// ===== math/%s (pure lemmas, no repository code)" % n, "math")
        a.add(t, "math:" + n)
    for n, t in read_fragments("math", unit.get("math_stub", ""), inst):
        # lemma statements only: the proofs are discharged by the unit that lists the file under `math:`
        a.add("// ===== math/%s (lemma STATEMENTS; proofs discharged in the lemmas_* units)" % n, "math")
        t = strip_proof_bodies(t)
        t = re.sub(r"//\s*@ob[^\n]*", "", t)
        a.add(t, "mathstub:" + n)
    a.add("} // mod base", "header")
    a.add("use base::*;", "header")
    bc = []
    for ln in a.lines:
        m = re.match(r"^\s*//@broadcast\s+(\S+)", ln)
        if m and m.group(1) not in bc:
            bc.append(m.group(1))
    for ln in subst_vars(unit.get("glue", ""), inst).split("\n"):
        m = re.match(r"^\s*//@broadcast\s+(\S+)", ln)
        if m and m.group(1) not in bc:
            bc.append(m.group(1))
    if bc:
        a.add("broadcast use {%s};" % ", ".join(bc), "prelude")
    byid = {o["id"]: o for o in outs["items"]}
    bad = [o for o in outs["items"] if not o["ok"]]
    if bad:
        la = [o for o in bad if o.get("error_kind") == "lost-anchor"]
        if la and len(la) == len(bad):
            raise LostAnchors([o["id"] for o in la], {o["id"]: o["error"] for o in la})
        raise Machinery("; ".join("%s: %s [%s]" % (o["id"], o["error"], o["error_kind"]) for o in bad))
    by_module = {}
    for o in outs["items"]:
        req = next(r for r in unit["_reqs"] if r["id"] == o["id"])
        by_module.setdefault(req["_module"], []).append((o, req))
    for module in sorted(by_module):
        if module:
            a.add("pub mod %s {" % module, "header")
            a.add("use super::*;", "header")
            mu = contracts[by_module[module][0][0]["id"].split("{")[0]].get("module_uses", "")
            if mu.strip():
                a.add(mu, "header")
        for o, req in by_module[module]:
            mode = req["mode"]
            a.add("// ===== %s  [%s]  %s:%d-%d" % (o["id"], mode, o["file"], o["start_line"], o["end_line"]), "item", o["id"])
            if o["header"]:
                a.add(o["header"] + " {", "item", o["id"])
                if o.get("assoc"):
                    a.add(o["assoc"].rstrip("\n"), "item", o["id"])
                extra = subst_vars(contracts[o["id"].split("{")[0]].get("impl_extra", ""), req["_inst"])
                if extra.strip():
                    a.add(extra, "item", o["id"])
                if mode == "slice":
                    a.add(req["_slice_header"], "item", o["id"])
                a.add(o["text"], "item", o["id"])
                if mode == "slice":
                    a.add(req["_slice_footer"], "item", o["id"])
                a.add("}", "item", o["id"])
            else:
                if mode == "slice":
                    a.add(req["_slice_header"], "item", o["id"])
                a.add(o["text"], "item", o["id"])
                if mode == "slice":
                    a.add(req["_slice_footer"], "item", o["id"])
        if module:
            a.add("} // mod %s" % module, "header")
    for n, t in read_fragments("glue", unit.get("glue_files", ""), inst):
        a.add("// ===== glue/%s (spec vocabulary and lemmas over the extracted items)" % n, "glue")
        a.add(t, "glue", "glue:" + n)
    glue = subst_vars(unit.get("glue", ""), inst)
    if glue.strip():
        a.add("// ===== glue: lemmas over the contracts above", "glue")
        a.add(glue, "glue", "glue:" + unit["name"])
    # vacuity guard: with every assumed contract and broadcast axiom in scope, `false` must NOT be provable
    a.add("proof fn vx_canary() { assert(false); } // vx_canary: this assertion must fail", "glue", "glue:canary")
    a.add("} // verus!", "header")
    a.add("fn main() {}", "header")
    return a, byid


# ------------------------------------------------------------------------------------------------
# verification


def parse_json_stream(txt):
    dec = json.JSONDecoder()
    i = 0
    objs = []
    junk = []
    n = len(txt)
    while i < n:
        while i < n and txt[i].isspace():
            i += 1
        if i >= n:
            break
        if txt[i] != "{":
            j = txt.find("\n", i)
            j = n if j < 0 else j
            junk.append(txt[i:j])
            i = j
            continue
        try:
            o, j = dec.raw_decode(txt, i)
            objs.append(o)
            i = j
        except ValueError:
            j = txt.find("\n", i)
            j = n if j < 0 else j
            junk.append(txt[i:j])
            i = j
    return objs, junk


def run_verus(path, rlimit=None, timeout=600):
    cmd = ["verus", path, "--output-json", "--time", "--error-format=json", "--multiple-errors", "20"]
    if rlimit:
        cmd += ["--rlimit", str(rlimit)]
    t0 = time.time()
    try:
        p = subprocess.run(cmd, capture_output=True, text=True, timeout=timeout, cwd=os.path.dirname(path))
    except subprocess.TimeoutExpired:
        raise Machinery("verus timed out on %s" % path)
    wall = time.time() - t0
    objs, junk = parse_json_stream(p.stdout + "\n" + p.stderr)
    diags = [o for o in objs if o.get("$message_type") == "diagnostic"]
    summary = next((o for o in objs if "verification-results" in o), None)
    return {"cmd": " ".join(cmd), "path": path, "rc": p.returncode, "diags": diags, "summary": summary, "junk": junk, "wall": wall, "raw": p.stdout[-4000:] + p.stderr[-4000:]}


def ob_tags(line):
    m = re.search(r"//\s*@ob\s+([\w\.\-:]+)(?:\s*\[([^\]]*)\])?", line)
    if not m:
        return None, None
    props = m.group(2).replace(",", " ").split() if m.group(2) else None
    return m.group(1), props


def classify(asm, res, contracts, unit):
    """-> (failures, machinery_errors).  failure = dict(item, tag, props, message, rendered, clause)"""
    fails = []
    mach = []
    unit_props = unit.get("props", "").split()
    for d in res["diags"]:
        if d.get("level") != "error":
            continue
        msg = d.get("message", "")
        if msg.startswith("aborting due to"):
            continue
        semantic = any(s in msg for s in SEMANTIC) and not d.get("code")
        if not semantic:
            mach.append({"message": msg, "rendered": d.get("rendered", "")})
            continue
        # locate: the clause span (label mentions 'failed') and the code span
        clause_line = None
        code_item = None
        clause_item = None
        for sp in d.get("spans", []):
            # a span inside a std macro (assert!, panic!, unreachable!, ...) is resolved to its call site in the assembled file
            e = sp
            while e is not None and not str(e.get("file_name", "")).endswith(os.path.basename(res["path"])) and e.get("expansion"):
                e = e["expansion"]["span"]
            if e is None or not str(e.get("file_name", "")).endswith(os.path.basename(res["path"])):
                continue
            ln = e["line_start"] - 1
            if ln >= len(asm.origin):
                continue
            sec, iid = asm.origin[ln]
            label = (sp.get("label") or "")
            if "failed" in label or (sp.get("is_primary") and clause_line is None and "postcondition" in msg):
                clause_line = ln
                clause_item = iid or sec
            if iid and (code_item is None or sp.get("is_primary")):
                if not ("failed" in label and "precondition" in label):
                    code_item = iid
        if code_item is None:
            code_item = clause_item
        tag, tprops = (None, None)
        clause_text = ""
        if clause_line is not None:
            # the tag may be on the clause line or a following continuation line (multi-line clause)
            depth = 0
            for k in range(clause_line, min(clause_line + 16, len(asm.lines))):
                code = asm.lines[k].split("//")[0]
                depth += code.count("(") + code.count("{") + code.count("[") - code.count(")") - code.count("}") - code.count("]")
                tag, tprops = ob_tags(asm.lines[k])
                if tag or (depth <= 0 and code.rstrip().endswith(",")):
                    clause_text = "\n".join(asm.lines[clause_line:k + 1])
                    break
        # for postconditions the item is where the clause lives; for pre/assert the code item
        item = clause_item if ("postcondition" in msg and clause_item and not str(clause_item).startswith("prelude")) else code_item
        props = tprops
        if props is None:
            c = contracts.get(str(item).split("{")[0]) if item else None
            if c is not None and c.get("props") is not None:
                props = c["props"].split()
            else:
                props = unit_props
        kind = msg
        name = "%s.%s" % (item, tag) if tag else "%s.<%s@%s>" % (item, re.sub(r"\W+", "-", msg), (asm.lines[clause_line].strip()[:60] if clause_line is not None else "?"))
        fails.append({"item": item, "tag": tag, "obligation": name, "props": props, "message": kind, "clause": clause_text.strip(), "rendered": d.get("rendered", "")})
    return fails, mach


def count_obligations(asm, res):
    """Registered obligations = tagged clauses; plus per verified function one implicit bundle."""
    tags = []
    for i, ln in enumerate(asm.lines):
        t, p = ob_tags(ln)
        if t:
            sec, iid = asm.origin[i]
            tags.append({"item": iid or sec, "tag": t, "props": p, "clause": ln.strip()})
    funcs = []
    s = res.get("summary") or {}
    try:
        for m in s["times-ms"]["smt"]["smt-run-module-times"]:
            for f in m.get("function-breakdown", []):
                funcs.append(f)
    except Exception:
        pass
    return tags, funcs


def _auto_stub_candidates(mach, contracts, have):
    """rustc says a callee is missing from the unit: look it up among the contracts (stub = contract only)"""
    found = []
    for m in mach:
        msg = m["message"]
        mm = re.search(r"no (?:method|function or associated item) named `(\w+)` found for (?:struct|reference|enum|mutable reference) `([^`]+)`", msg)
        if mm:
            meth, ty = mm.group(1), mm.group(2)
            ty = re.sub(r"<.*$", "", ty.replace("&", "").replace("mut ", "").strip()).split("::")[-1]
            for cid, c in contracts.items():
                path = c.get("path", "").strip()
                if re.match(r"^impl (?:.* for )?%s::%s$" % (re.escape(ty), re.escape(meth)), path) and cid not in have and cid not in found:
                    found.append(cid)
        mm = re.search(r"cannot find function `(\w+)` in this scope", msg)
        if mm:
            for cid, c in contracts.items():
                if re.match(r"^fn (?:\w+::)*%s$" % re.escape(mm.group(1)), c.get("path", "").strip()) and cid not in have and cid not in found:
                    found.append(cid)
                    break
    return found


def verify_unit(unit_name, inst, contracts, keep=True):
    unit = load_unit(unit_name)
    auto = []
    lost = []
    r = None
    for attempt in range(8):
        try:
            r = _verify_unit_once(unit_name, unit, inst, contracts)
        except LostAnchors as e:
            # a function the contracts name no longer exists (renamed, inlined, removed): its obligations are
            # undecided; the rest of the unit is still verified so that callers' obligations can fail or pass
            progressed = False
            for tok in e.ids:
                for mode in ("body", "stub", "slice"):
                    toks = unit.get(mode, "").split()
                    if tok in toks:
                        toks.remove(tok)
                        unit[mode] = " ".join(toks)
                        lost.append((tok, e.why.get(tok, "")))
                        progressed = True
            if not progressed:
                raise Machinery(str(e))
            continue
        if not r["mach"] or r["fails"]:
            break
        have = set(q["cid"] for q in r["reqs"])
        cands = _auto_stub_candidates(r["mach"], contracts, have)
        if not cands:
            break
        # a callee the pinned unit did not need: add its contract as an (assumed) stub and retry
        for cid in cands:
            c = contracts[cid]
            keys = [k for k in ("G", "N") if ("${%s}" % k) in json.dumps(c) or (c.get("subst") is None and k in inst)]
            tok = cid + ("{%s}" % ",".join("%s=%s" % (k, k) for k in keys) if keys else "")
            unit["stub"] = (unit.get("stub", "") + " " + tok).strip()
            auto.append(tok)
    if r is None:
        raise Machinery("unit %s could not be assembled" % unit_name)
    r["auto_stubs"] = auto
    r["lost_anchors"] = lost
    for tok, why in lost:
        c = contracts.get(tok.split("{")[0], {})
        lp = c.get("props", "").split() if c.get("props") is not None else unit.get("props", "").split()
        r["mach"].append({"message": "lost anchor: %s (%s) - its obligations are undecided" % (tok, why), "rendered": "", "props": lp})
    return r


class LostAnchors(Exception):
    def __init__(self, ids, why):
        Exception.__init__(self, "; ".join("%s: %s" % (i, why[i]) for i in ids))
        self.ids = ids
        self.why = why


def _verify_unit_once(unit_name, unit, inst, contracts):
    alias, alias_notes = field_aliases(unit, contracts)
    if alias:
        inst = dict(inst)
        inst["__alias__"] = alias
    reqs = build_request(unit, inst, contracts)
    unit["_reqs"] = reqs
    outs = run_extract(reqs)
    asm, byid = assemble(unit, inst, contracts, outs)
    d = os.path.join(WORK, "units")
    os.makedirs(d, exist_ok=True)
    fname = "%s__%s.rs" % (unit_name, inst_name(inst))
    path = os.path.join(d, fname)
    # atomic: concurrent checks of different properties assemble the same unit file; a reader must never see it half-written
    tmp = "%s.tmp.%d" % (path, os.getpid())
    with open(tmp, "w") as f:
        f.write(asm.text())
    os.replace(tmp, path)
    res = run_verus(path)
    fails, mach = classify(asm, res, contracts, unit)
    # proof-shape drift: a function that now contains MORE closures or loops than on the unchanged tree carries code that
    # has no contract (a closure without `ensures`, a loop without invariant): a failed obligation of such a function says
    # nothing about the code - it is undecided (exit 2 for the properties that depend on it), never a violation
    sh = shapes()
    drift = {}
    for q, o in zip(reqs, outs["items"]):
        rec = sh.get(q["cid"])
        if rec and o.get("ok") and q["mode"] in ("body", "slice"):
            if o.get("n_closures", 0) > rec.get("n_closures", 10**9) or o.get("n_loops", 0) > rec.get("n_loops", 10**9):
                drift[q["id"]] = "%s now has %d closure(s) / %d loop(s) (unchanged tree: %d / %d): the new one carries no contract" % (q["id"], o.get("n_closures", 0), o.get("n_loops", 0), rec.get("n_closures", 0), rec.get("n_loops", 0))
    if drift:
        kept = []
        for f in fails:
            if f["item"] in drift:
                mach.append({"message": "proof-shape drift: " + drift[f["item"]] + " - obligation %s is undecided" % f["obligation"], "rendered": f["rendered"], "props": f["props"]})
            else:
                kept.append(f)
        fails = kept
    tags, funcs = count_obligations(asm, res)
    vr = (res.get("summary") or {}).get("verification-results", {})
    if res["summary"] is None:
        mach.append({"message": "verus produced no summary", "rendered": res["raw"][-3000:]})
    elif not vr.get("success") and not fails and not mach:
        mach.append({"message": "verus reported failure without a classified diagnostic", "rendered": res["raw"][-3000:]})
    return {
        "unit": unit_name,
        "inst": inst,
        "path": path,
        "asm": asm,
        "items": byid,
        "reqs": reqs,
        "res": res,
        "fails": fails,
        "mach": mach,
        "tags": tags,
        "funcs": funcs,
        "verified": vr.get("verified", 0),
        "errors": vr.get("errors", 0),
        "unit_def": unit,
        "alias_notes": alias_notes,
    }


def sha(text):
    return hashlib.sha256(text.encode()).hexdigest()[:16]


if __name__ == "__main__":
    # developer entry: vxlib.py <unit> [K=V ...]   |   vxlib.py --record-shapes
    if sys.argv[1] == "--record-shapes":
        record_shapes()
        sys.exit(0)
    contracts = load_contracts()
    unit = sys.argv[1]
    inst = dict(kv.split("=", 1) for kv in sys.argv[2:])
    try:
        r = verify_unit(unit, inst, contracts)
    except Machinery as e:
        print("MACHINERY:", e)
        sys.exit(2)
    print("unit %s %s: verified=%d errors=%d  tags=%d  file=%s  wall=%.1fs" % (unit, inst, r["verified"], r["errors"], len(r["tags"]), r["path"], r["res"]["wall"]))
    shown = [f for f in r["fails"] if "vx_canary" not in f["rendered"]]
    if len(shown) == len(r["fails"]) and not r["mach"]:
        print("CANARY DID NOT FAIL: assumptions inconsistent?")
    for f in shown:
        print("FAIL", f["obligation"], f["props"], f["message"])
        print(f["rendered"])
    for m in r["mach"]:
        print("MACH", m["message"])
        print(m["rendered"][:3000])
    sys.exit(1 if shown else (2 if r["mach"] else 0))
