#!/usr/bin/env python3
"""seed_table.py: render seeded/*/meta.json as the markdown table of DESIGN.md section 10.8 (between the markers)."""
import glob
import json
import os
import re

VERIF = os.path.dirname(os.path.dirname(os.path.abspath(__file__)))


def first_ob(lines):
    for l in lines:
        m = re.search(r"replay=\S*/([^/\s]+?)(?:\.txt|\.rs)?(?:\s|$)", l)
        if l.startswith("VIOLATION") and m and "not written" not in l:
            return m.group(1)
        m = re.search(r"obligation=(\S+)", l)
        if l.startswith("VIOLATION") and m:
            return m.group(1)
    return ""


rows = []
for f in sorted(glob.glob(os.path.join(VERIF, "seeded", "*", "meta.json"))):
    m = json.load(open(f))
    ch = m.get("checks", {})
    res = ch.get("results", {})
    t = m["breaks_property"]
    tr = res.get(t, {})
    verdict = {0: "MISSED (exit 0)", 1: "caught", 2: "undecided (exit 2)"}.get(tr.get("rc"), "not run")
    ob = first_ob(tr.get("lines", []))
    ob = re.sub(r"^(\w+)\[[^\]]*\]:", r"\1:", ob)
    others = [p for p in ch.get("caught_by", []) if p != t]
    rows.append("| %s | %s | %s | %s | %s | %s |" % (m["seed_id"], t, (m.get("needs_to_manifest") or "").replace("|", "/")[:110], verdict, ("`%s`" % ob[:90]) if ob else "", " ".join(others)))
hdr = "| seeded change | breaks | needs, to show | target check | first failed obligation | also reported by |\n|---|---|---|---|---|---|\n"
table = hdr + "\n".join(rows) + "\n"
p = os.path.join(VERIF, "DESIGN.md")
s = open(p).read()
a, b = "<!-- seed-table:begin -->", "<!-- seed-table:end -->"
if a in s:
    s = s[:s.index(a) + len(a)] + "\n" + table + s[s.index(b):]
    open(p, "w").write(s)
print(table)
