"""Site and shape scans (side conditions that are syntactic facts about /repo), run through vx-extract's syn parse."""
import re
import vxlib
from vxlib import Machinery

ZC = "zkchannels-crypto/src/"
ZA = "zkabacus-crypto/src/"
ZC_FILES = [ZC + f for f in ["lib.rs", "pedersen.rs", "pointcheval_sanders.rs", "serde.rs", "proofs/challenge.rs", "proofs/commitment.rs", "proofs/range.rs", "proofs/signature.rs", "proofs/signaturerequest.rs"]]
ZA_FILES = [ZA + f for f in ["lib.rs", "customer.rs", "merchant.rs", "nonce.rs", "proofs.rs", "revlock.rs", "states.rs"]]


def _sites(kind, name, files):
    out = vxlib.run_extract([], [{"id": "s", "kind": kind, "name": name, "files": files}])
    s = out["scans"][0]
    if not s["ok"]:
        raise Machinery("scan failed: %s" % s["error"])
    return s


def only_in(kind, name, files, allowed, what):
    """every site of (kind, name) in non-test code lies in one of the allowed enclosing functions"""
    s = _sites(kind, name, files)
    bad = [x for x in s["sites"] if x["enclosing"] not in allowed]
    return {
        "ok": not bad and len(s["sites"]) > 0,
        "what": what,
        "detail": "sites: %s; outside allowed set %s: %s" % ([(x["file"], x["line"], x["enclosing"]) for x in s["sites"]], sorted(allowed), [(x["file"], x["line"], x["enclosing"], x["text"]) for x in bad]) if (bad or not s["sites"]) else "%d site(s), all inside %s" % (len(s["sites"]), sorted(allowed)),
    }


def none_of(kind, name, files, what):
    s = _sites(kind, name, files)
    return {"ok": not s["sites"], "what": what, "detail": "sites: %s" % [(x["file"], x["line"], x["enclosing"], x["text"]) for x in s["sites"]]}


SCANS = {}


def scan(name):
    def deco(f):
        SCANS[name] = f
        return f
    return deco


@scan("verified_blinded_message_sites")
def _s1():
    return _no_backdoor(only_in("constructs", "VerifiedBlindedMessage", ZC_FILES + ZA_FILES,
                   {"impl SignatureRequestProof::verify_knowledge_of_opening"},
                   "a blind-signable VerifiedBlindedMessage is constructed only inside SignatureRequestProof::verify_knowledge_of_opening"), "VerifiedBlindedMessage")


def _no_backdoor(r, ty):
    """a capability type must not gain a constructor through a derive (Deserialize, Default) or a public field"""
    sh = _shapes(ZC_FILES + ZA_FILES).get(ty)
    if sh is None:
        raise Machinery("scan: type %s not found" % ty)
    bad = [d for d in sh["derives"] if d in ("Deserialize", "Default")]
    r = dict(r)
    r["what"] += "; the type derives neither Deserialize nor Default and has no public field"
    if bad or not sh["all_fields_private"]:
        r["ok"] = False
        r["detail"] = "%s %s: values can be made without a verifying proof; %s" % (ty, ("derives " + "/".join(bad)) if bad else "has a public field", r["detail"])
    return r


@scan("verified_blinded_state_sites")
def _s2():
    return _no_backdoor(only_in("constructs", "VerifiedBlindedState", ZC_FILES + ZA_FILES,
                   {"impl EstablishProof::verify", "impl PayProof::verify"},
                   "VerifiedBlindedState is constructed only inside the two zkAbacus proof verifiers"), "VerifiedBlindedState")


@scan("verified_blinded_close_state_sites")
def _s3():
    return _no_backdoor(only_in("constructs", "VerifiedBlindedCloseState", ZC_FILES + ZA_FILES,
                   {"impl EstablishProof::verify", "impl PayProof::verify"},
                   "VerifiedBlindedCloseState is constructed only inside the two zkAbacus proof verifiers"), "VerifiedBlindedCloseState")


@scan("revocation_pair_release_sites")
def _s4():
    return only_in("calls", "revocation_pair", ZA_FILES, {"impl Started::lock"},
                   "State::revocation_pair() (which moves the secret out of a state) is called only inside Started::lock")


@scan("lock_message_sites")
def _s5():
    return only_in("constructs", "LockMessage", ZA_FILES, {"impl Started::lock"},
                   "a LockMessage is constructed only inside Started::lock")


@scan("no_unsafe")
def _s6():
    return none_of("unsafe", "", ZC_FILES + ZA_FILES, "no unsafe block or unsafe fn in either crate")


@scan("nonce_sites")
def _s7():
    return only_in("constructs", "Nonce", ZA_FILES, {"impl TryFrom for Nonce::try_from"},
                   "a Nonce value is constructed only inside TryFrom<UncheckedNonce>::try_from (which rejects the close tag)")


@scan("revocation_pair_sites")
def _s8():
    return only_in("constructs", "RevocationPair", ZA_FILES, {"impl TryFrom for RevocationPair::try_from"},
                   "a RevocationPair is constructed by struct literal only inside TryFrom<UncheckedRevocationSecret>::try_from (which computes the lock from the secret)")


def _shapes(files):
    out = vxlib.run_extract([], [{"id": "s", "kind": "shape", "name": "", "files": files}])
    s = out["scans"][0]
    if not s["ok"]:
        raise Machinery("scan failed: %s" % s["error"])
    return {(sh["name"]): sh for sh in s["shapes"]}


ROUTED = [
    # (type, unchecked twin or primitive, file)
    ("PedersenParameters", "UncheckedPedersenParameters"),
    ("SecretKey", "UncheckedSecretKey"),
    ("PublicKey", "UncheckedPublicKey"),
    ("Signature", "UncheckedSignature"),
    ("Nonce", "UncheckedNonce"),
    ("RevocationPair", "UncheckedRevocationPair"),
    ("Balance", "u64"),
]


@scan("serde_routing")
def _routing():
    sh = _shapes(ZC_FILES + ZA_FILES)
    problems = []
    for ty, twin in ROUTED:
        s = sh.get(ty)
        if s is None:
            problems.append("%s: type not found" % ty)
            continue
        if "Deserialize" not in s["derives"]:
            problems.append("%s: no Deserialize derive" % ty)
        want = 'try_from="%s' % twin
        if not any(want in a.replace(" ", "") for a in s["serde_attrs"]):
            problems.append("%s: serde attributes %s do not route decoding through try_from = \"%s\"" % (ty, s["serde_attrs"], twin))
        if not s["all_fields_private"]:
            problems.append("%s: has a public field (invariant could be bypassed by construction)" % ty)
        t = sh.get(twin)
        if twin != "u64":
            if t is None:
                problems.append("%s: twin %s not found" % (ty, twin))
            else:
                def norm(fs):
                    return [(n, re.sub(r"Unchecked", "", ty_), sorted(a)) for n, ty_, a in fs]
                if norm(s["fields"]) != norm(t["fields"]):
                    problems.append("%s and %s differ in fields/order/codecs: %s vs %s" % (ty, twin, s["fields"], t["fields"]))
    return {"ok": not problems, "what": "every invariant-bearing Deserialize type routes decoding through its validator (serde try_from), has only private fields, and its Unchecked twin mirrors its fields, order and codecs",
            "detail": "; ".join(problems) if problems else "%d types routed: %s" % (len(ROUTED), ", ".join(t for t, _ in ROUTED))}


CONSTRUCTORS = {
    # invariant-bearing type -> the only functions that may build a value of it (each is under contract or validated)
    "SecretKey": {"impl SecretKey::new", "impl TryFrom for SecretKey::try_from"},
    "PublicKey": {"impl PublicKey::from_secret_key", "impl TryFrom for PublicKey::try_from"},
    "KeyPair": {"impl KeyPair::new"},
    "PedersenParameters": {"impl PedersenParameters::from_generators", "impl PedersenParameters::new", "impl TryFrom for PedersenParameters::try_from"},
    "Balance": {"impl Balance::try_new", "impl Balance::zero"},
}


@scan("validated_constructor_sites")
def _constructors():
    problems = []
    n = 0
    for ty, allowed in CONSTRUCTORS.items():
        r = only_in("constructs", ty, ZC_FILES + ZA_FILES, allowed, "")
        n += 1
        if not r["ok"]:
            problems.append("%s: %s" % (ty, r["detail"]))
    if problems:
        # a new construction site may be a harmless helper or a path around the validators: undecided, the bounded
        # decode-validation stand-ins give the verdict
        raise Machinery("validated_constructor_sites: a value of an invariant-bearing type is now built outside its generators / validators (not under contract): " + "; ".join(problems)[:600])
    return {"ok": not problems, "what": "values of the invariant-bearing types (secret/public key, key pair, Pedersen parameters, balance) are built only by their generators and decode-time validators - no other function (e.g. a new decode path) constructs them directly",
            "detail": "; ".join(problems) if problems else "%d types, all construction sites inside their validated constructors" % n}


STAGE_TYPES = ["Requested", "Inactive", "Ready", "Started", "Locked", "State", "CloseState", "CloseStateSignature", "PayToken", "BlindingFactors",
               "CloseStateBlindingFactor", "PayTokenBlindingFactor", "RevocationLockBlindingFactor", "RevocationLock", "RevocationSecret", "ChannelId",
               "MerchantBalance", "CustomerBalance", "BlindingFactor", "Signature", "Nonce", "RevocationPair", "Balance"]


@scan("customer_state_shapes")
def _stage_shapes():
    sh = _shapes(ZC_FILES + ZA_FILES)
    problems = []
    unknown = []
    bad_words = ("skip", "default", "flatten", "rename", "alias", "other", "tag", "untagged", "borrow", "getter", "remote", "from=", "into=")
    for ty in STAGE_TYPES:
        s = sh.get(ty)
        if s is None:
            problems.append("%s: type not found" % ty)
            continue
        for d in ("Serialize", "Deserialize"):
            if d not in s["derives"]:
                problems.append("%s: missing derive(%s)" % (ty, d))
        attrs = list(s["serde_attrs"]) + [a for _, _, fa in s["fields"] for a in fa]
        for a in attrs:
            a2 = a.replace(" ", "")
            if any(w in a2 for w in bad_words) and "try_from=" not in a2:
                problems.append("%s: serde attribute %s changes the stored shape" % (ty, a))
            m = re.search(r'try_from="([^"]+)"', a2)
            if m:
                twin = m.group(1)
                known = dict(ROUTED).get(ty)
                t = sh.get(twin)
                if t is not None:
                    # a positional format decodes the TWIN's field list: it must mirror the stored type field by field
                    def norm(fs):
                        return [(n, re.sub(r"Unchecked", "", ty_), sorted(x)) for n, ty_, x in fs]
                    if norm(s["fields"]) != norm(t["fields"]):
                        problems.append("%s is decoded through %s, whose fields/order/codecs differ: %s vs %s (a positional format restores the wrong fields)" % (ty, twin, s["fields"], t["fields"]))
                if known != twin:
                    unknown.append("%s: decode-time validator try_from = \"%s\" is not under contract (accepting exactly the values the program can store is undecided)" % (ty, twin))
    if unknown and not problems:
        raise Machinery("customer_state_shapes: " + "; ".join(unknown))
    return {"ok": not problems, "what": "the five customer stage structs and every type they contain derive both Serialize and Deserialize, carry no skip/default/flatten/rename attribute, and any decode-time twin mirrors the stored fields in order",
            "detail": "; ".join(problems) if problems else "%d types checked" % len(STAGE_TYPES)}


def run_scans(pid, names):
    res = []
    for n in names:
        if n not in SCANS:
            raise Machinery("unknown scan %s" % n)
        r = SCANS[n]()
        r["name"] = n
        res.append(r)
    return res


if __name__ == "__main__":
    import sys
    for n in (sys.argv[1:] or sorted(SCANS)):
        r = SCANS[n]()
        print(n, "OK" if r["ok"] else "FAIL", r["detail"])


