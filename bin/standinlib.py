"""Bounded stand-ins: native executable contracts on an input lattice, run in a scratch copy of /repo.
Never counted as proved.  Used (a) as a fallback when the Verus lane cannot decide a function (exit-2 trouble),
so that a refutation with a concrete input can still be reported, and (b) in the thorough tier."""
import os
import re
import shutil
import subprocess
import tempfile

from vxlib import Machinery, VERIF, REPO

CACHE = os.environ.get("VERIF_CACHE", os.path.join(VERIF, ".cache"))

INJECT = [
    ("zkchannels-crypto/src/pointcheval_sanders.rs", "zc_pointcheval_sanders.rs"),
    ("zkchannels-crypto/src/pedersen.rs", "zc_pedersen.rs"),
    ("zkchannels-crypto/src/proofs/commitment.rs", "zc_commitment.rs"),
    ("zkchannels-crypto/src/proofs/commitment.rs", "zc_commitment_access.rs"),
    ("zkchannels-crypto/src/proofs/signature.rs", "zc_signature.rs"),
    ("zkchannels-crypto/src/proofs/range.rs", "zc_range.rs"),
    ("zkchannels-crypto/src/proofs/challenge.rs", "zc_challenge.rs"),
    ("zkabacus-crypto/src/merchant.rs", "za_merchant.rs"),
    ("zkabacus-crypto/src/states.rs", "za_states.rs"),
    ("zkabacus-crypto/src/customer.rs", "za_customer.rs"),
    ("zkabacus-crypto/src/revlock.rs", "za_revlock.rs"),
    ("zkabacus-crypto/src/nonce.rs", "za_nonce.rs"),
    ("zkabacus-crypto/src/proofs.rs", "za_proofs.rs"),
]

# test -> (crate, properties it stands in for, functions)
TESTS = {
    "standin_ps_signature_verify": ("zkchannels-crypto", ["C07", "C08", "C03", "C18"], ["ps.Signature::verify", "ps.Signature::new"]),
    "standin_key_decode_validation": ("zkchannels-crypto", ["C15", "C07", "C08"], ["ps.PublicKey::try_from", "ps.SecretKey::try_from"]),
    "standin_range_params_generation": ("zkchannels-crypto", ["C19", "C13"], ["range.RangeConstraintParameters::new", "ps.Signature::new"]),
    "standin_public_key_bytes": ("zkchannels-crypto", ["C18"], ["ps.PublicKey::to_bytes"]),
    "standin_keygen": ("zkchannels-crypto", ["C19", "C07", "C08", "C01"], ["ps.KeyPair::new", "ps.SecretKey::new", "ps.PublicKey::from_secret_key"]),
    "standin_ps_publickey_consume": ("zkchannels-crypto", ["C12", "C01", "C02", "C06"], ["ps.PublicKey::consume"]),
    "standin_pedersen_commitment": ("zkchannels-crypto", ["C09", "C10", "C11", "C05"], ["pedersen.Commitment::new", "pedersen.Commitment::verify_opening"]),
    "standin_pedersen_params_challenge": ("zkchannels-crypto", ["C12", "C06", "C05", "C09", "C19"], ["pedersen.PedersenParameters::consume"]),
    "standin_cproof_verify": ("zkchannels-crypto", ["C11", "C10", "C01", "C02", "C08"], ["cproof.CommitmentProof::verify_knowledge_of_opening", "cproof.CommitmentProofBuilder::*"]),
    "standin_cproof_public_addition": ("zkchannels-crypto", ["C10", "C11"], ["cproof.CommitmentProofBuilder::generate_proof_response", "cproof.CommitmentProof::verify_knowledge_of_opening"]),
    "standin_cproof_patterns": ("zkchannels-crypto", ["C10", "C11", "C09"], ["cproof.CommitmentProof::verify_knowledge_of_opening", "cproof.CommitmentProofBuilder::*", "pedersen.Commitment::new"]),
    "standin_sproof_patterns": ("zkchannels-crypto", ["C10", "C11", "C13"], ["sproof.SignatureProofBuilder::generate_proof_commitments", "sproof.SignatureProof::verify_knowledge_of_signature"]),
    "standin_sproof_verify": ("zkchannels-crypto", ["C11", "C10", "C02", "C13", "C12"], ["sproof.SignatureProof::verify_knowledge_of_signature", "sproof.SignatureProof::consume"]),
    "standin_range_validate": ("zkchannels-crypto", ["C13", "C19"], ["range.RangeConstraintParameters::validate"]),
    "standin_range_constraint": ("zkchannels-crypto", ["C13", "C10", "C02", "C11"], ["range.RangeConstraintBuilder::*", "range.RangeConstraint::verify_range_constraint"]),
    "standin_challenge_finish": ("zkchannels-crypto", ["C12", "C06"], ["challenge.ChallengeBuilder::finish", "challenge.ChallengeBuilder::with_bytes", "challenge.Scalar::consume", "challenge.G1Projective::consume"]),
    "standin_range_params_challenge": ("zkchannels-crypto", ["C06", "C02", "C12"], ["range.RangeConstraintParameters::consume"]),
    "standin_channel_id_scalar": ("zkabacus-crypto", ["C06", "C18", "C01"], ["states.ChannelId::to_scalar"]),
    "standin_channel_id_collision_mod_q": ("zkabacus-crypto", ["C06"], ["states.ChannelId::to_scalar"]),
    "standin_channel_id_text": ("zkabacus-crypto", ["C15", "C16"], ["states.<ChannelId as FromStr>::from_str", "states.<ChannelId as Display>::fmt"]),
    "standin_channel_id_new": ("zkabacus-crypto", ["C18"], ["states.ChannelId::new"]),
    "standin_context_digest": ("zkabacus-crypto", ["C06", "C12"], ["zproofs.Context::new"]),
    "standin_establish_cheating_prover": ("zkabacus-crypto", ["C01", "C06", "C18"], ["zproofs.EstablishProof::verify"]),
    "standin_pay_cheating_prover": ("zkabacus-crypto", ["C02", "C06", "C18", "C05"], ["zproofs.PayProof::verify"]),
    "standin_establish_tuple": ("zkabacus-crypto", ["C06", "C01"], ["zproofs.EstablishProof::new", "zproofs.EstablishProof::verify"]),
    "standin_pay_tuple": ("zkabacus-crypto", ["C06", "C02"], ["zproofs.PayProof::new", "zproofs.PayProof::verify"]),
    "standin_no_hidden_slot_exposed": ("zkabacus-crypto", ["C14"], ["zproofs.EstablishProof::new", "zproofs.PayProof::new"]),
    "standin_close_from_every_stage": ("zkabacus-crypto", ["C03", "C04", "C14"], ["customer.Inactive/Ready/Started/Locked::close", "merchant.Config::check_close_signature"]),
    "standin_revocation_pair": ("zkabacus-crypto", ["C05", "C15", "C20"], ["revlock.RevocationPair::new", "revlock.RevocationPair::try_from_secret", "revlock.RevocationPair::try_from_pair"]),
    "standin_close_rerandomized": ("zkabacus-crypto", ["C14"], ["customer.*::close", "customer.ClosingMessage::new", "states.CloseStateSignature::randomize"]),
    "standin_nonce_never_close_tag": ("zkabacus-crypto", ["C18", "C15", "C02", "C20"], ["nonce.Nonce::new", "nonce.Nonce::try_from"]),
    "standin_restore_continues": ("zkabacus-crypto", ["C20", "C03"], ["customer.Requested/Inactive/Ready/Started/Locked (serde derives)", "customer.*::close", "customer.Started::lock"]),
    "standin_merchant_flow": ("zkabacus-crypto", ["C04", "C05", "C03", "C01", "C02"], ["merchant.Config::*", "merchant.Unrevoked::complete_payment", "customer.*"]),
}


# stand-ins that run in every tier: they carry a recorded finding that no deductive obligation expresses
ALWAYS = {"C06": ["standin_channel_id_collision_mod_q", "standin_channel_id_scalar", "standin_establish_tuple", "standin_pay_tuple", "standin_context_digest"], "C14": ["standin_no_hidden_slot_exposed"], "C19": ["standin_range_params_generation", "standin_pedersen_params_challenge"], "C05": ["standin_pedersen_params_challenge"], "C01": ["standin_channel_id_scalar"], "C18": ["standin_channel_id_scalar"], "C13": ["standin_range_params_generation"]}


def tests_for(pid):
    return [t for t, (c, props, f) in TESTS.items() if pid in props]


def select(pid, tier, undecided):
    """quick: the ALWAYS set, plus everything for the property when the deductive lane is undecided; thorough: everything"""
    if tier == "thorough" or undecided:
        return tests_for(pid)
    return [t for t in ALWAYS.get(pid, []) if t in TESTS]


def run(pid, only=None):
    """-> list of dict(name, ok, detail, functions, replay, machinery).  A failing stand-in is confirmed by a second,
    separate run of that test alone; a test that fails once and passes on the retry is machinery trouble, not a violation."""
    res = _run_once(pid, only)
    out = []
    for r in res:
        if not r["ok"] and not r.get("machinery"):
            again = [x for x in _run_once(pid, [r["name"]]) if x["name"] == r["name"]]
            if not again or again[0]["ok"] or again[0].get("machinery"):
                r = dict(r, machinery="stand-in %s failed once and did not fail again when re-run alone (first message: %s)" % (r["name"], (r.get("detail") or "")[:300]))
        out.append(r)
    return out


def _run_once(pid, only=None):
    # one stand-in build+run at a time per cache directory (shared cargo target directory)
    import fcntl
    os.makedirs(CACHE, exist_ok=True)
    with open(os.path.join(CACHE, "standin.lock"), "w") as lk:
        fcntl.flock(lk, fcntl.LOCK_EX)
        try:
            return _run_once_locked(pid, only)
        finally:
            fcntl.flock(lk, fcntl.LOCK_UN)


def _run_once_locked(pid, only=None):
    names = [t for t in tests_for(pid) if only is None or t in only]
    filt = "standin_" if only is None or len(names) != 1 else names[0]
    if not names:
        return []
    d = tempfile.mkdtemp(prefix="vf_standin.", dir="/tmp")
    res = []
    try:
        subprocess.run(["rsync", "-a", "--exclude", "target", "--exclude", ".git", REPO + "/", d + "/"], check=True)
        for target, src in INJECT:
            with open(os.path.join(d, target), "a") as f:
                f.write("\n" + open(os.path.join(VERIF, "standins", src)).read())
        env = dict(os.environ, CARGO_NET_OFFLINE="true", CARGO_TARGET_DIR=os.path.join(CACHE, "standin-target"))
        for crate in sorted(set(TESTS[t][0] for t in names)):
            ts = [t for t in names if TESTS[t][0] == crate]
            cmd = ["cargo", "test", "--offline", "--release", "--features", "bincode", "-p", crate, "--lib", filt, "--", "--test-threads", "8"]
            try:
                p = subprocess.run(cmd, cwd=d, env=env, capture_output=True, text=True, timeout=2400)
            except subprocess.TimeoutExpired:
                for t in ts:
                    res.append(dict(name=t, ok=False, machinery="timeout", detail="timeout", functions=TESTS[t][2], replay=""))
                continue
            out = p.stdout + p.stderr
            for t in ts:
                m = re.search(r"test \S*%s \.\.\. (\w+)" % re.escape(t), out)
                if not m:
                    res.append(dict(name=t, ok=False, machinery="stand-in did not run (does it still compile against the changed code?)\n" + out[-1500:], detail="not run", functions=TESTS[t][2], replay=""))
                    continue
                ok = m.group(1) == "ok"
                msg = ""
                if not ok:
                    mm = re.search(r"---- \S*%s stdout ----\n(.*?)(?:\n\n|\nstack backtrace)" % re.escape(t), out, flags=re.S)
                    msg = (mm.group(1) if mm else "")[-1500:]
                res.append(dict(name=t, ok=ok, detail=msg or "ok", functions=TESTS[t][2], machinery=None,
                                replay="// bounded stand-in `%s` (standins/*.rs) failed on the real code; the panic message names the input\n// %s\n// command: %s (in a scratch copy of /repo with standins/*.rs appended)\n" % (t, msg.replace("\n", "\n// "), " ".join(cmd))))
    finally:
        shutil.rmtree(d, ignore_errors=True)
    return res


if __name__ == "__main__":
    import sys
    for pid in sys.argv[1:] or ["C07"]:
        for r in run(pid):
            print(pid, r["name"], "OK" if r["ok"] else "FAIL", (r["detail"] or "")[:600], (r.get("machinery") or "")[:1500])
