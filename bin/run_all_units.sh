#!/bin/bash
# developer helper: run every unit with its quick instantiations
cd /verif
for u in verus/units/*.unit; do
  n=$(basename $u .unit)
  python3 - "$n" <<'PY'
import sys,os
sys.path.insert(0,'/verif/bin')
import vxlib
c=vxlib.load_contracts()
n=sys.argv[1]
u=vxlib.load_unit(n)
for inst in vxlib.parse_insts(u.get('inst quick','')):
    try:
        r=vxlib.verify_unit(n,inst,c)
    except vxlib.Machinery as e:
        print(n,inst,'MACHINERY',str(e)[:300]); continue
    fails=[f for f in r['fails'] if 'vx_canary' not in f['rendered']]
    print(n,vxlib.inst_name(inst),'verified',r['verified'],'fails',len(fails),'mach',len(r['mach']),[f['obligation'] for f in fails][:5], [m['message'][:200] for m in r['mach']][:2])
PY
done
