#!/usr/bin/env python3
"""harmless_eval.py <dir-with-patch.diff+README.md> <id> <props,comma>: apply a behaviour-preserving refactoring to an export of
/repo HEAD, run the named quick checks against it (VERIF_REPO), store patch + outcome under /verif/harmless/<id>/.
rc 0 = green, 2 = undecided (acceptable: never an alarm), 1 = FALSE ALARM."""
import json
import os
import shutil
import subprocess
import sys
import tempfile
import time
from concurrent.futures import ThreadPoolExecutor

VERIF = os.path.dirname(os.path.dirname(os.path.abspath(__file__)))


def sh(cmd, cwd=None, env=None, timeout=3600):
    p = subprocess.run(cmd, shell=True, cwd=cwd, env=env, capture_output=True, text=True, timeout=timeout)
    return p.returncode, p.stdout + p.stderr


def main():
    src, hid, props = sys.argv[1], sys.argv[2], sys.argv[3].split(",")
    patch = os.path.join(src, "patch.diff")
    sd = tempfile.mkdtemp(prefix="vf_harmless.", dir="/tmp")
    results = {}
    try:
        rc, out = sh("git -C /repo archive HEAD | tar -x -C %s && cd %s && patch -p1 -s < %s" % (sd, sd, patch))
        if rc != 0:
            print("HARMLESS %s: patch does not apply: %s" % (hid, out[-300:]))
            return 2

        def run(p):
            t0 = time.time()
            e = dict(os.environ, VERIF_REPO=sd, VERIF_WORK=os.path.join(sd + "_work", p), VERIF_JOBS="6")
            rc, out = sh("bin/check %s --no-evidence" % p, cwd=VERIF, env=e, timeout=3000)
            lines = [l for l in out.split("\n") if l.startswith(("VIOLATION", "MACHINERY", "OK ", "KNOWN-FINDING"))]
            results[p] = {"rc": rc, "lines": [l[:600] for l in lines][:4], "wall_s": round(time.time() - t0, 1)}
        with ThreadPoolExecutor(max_workers=3) as ex:
            list(ex.map(run, props))
    finally:
        shutil.rmtree(sd, ignore_errors=True)
        shutil.rmtree(sd + "_work", ignore_errors=True)
    dst = os.path.join(VERIF, "harmless", hid)
    os.makedirs(dst, exist_ok=True)
    if os.path.abspath(src) != os.path.abspath(dst):
        shutil.copy(patch, os.path.join(dst, "patch.diff"))
        if os.path.exists(os.path.join(src, "README.md")):
            shutil.copy(os.path.join(src, "README.md"), os.path.join(dst, "README.md"))
    json.dump({"id": hid, "results": results}, open(os.path.join(dst, "result.json"), "w"), indent=1)
    worst = max(r["rc"] if r["rc"] in (0, 1, 2) else 2 for r in results.values())
    alarm = [p for p, r in results.items() if r["rc"] == 1]
    und = [p for p, r in results.items() if r["rc"] == 2]
    print("HARMLESS %s: %s%s%s" % (hid, "FALSE ALARM in %s" % alarm if alarm else "no alarm", "; undecided in %s" % und if und else "", "; green in %s" % [p for p, r in results.items() if r["rc"] == 0]))
    for p in alarm + und:
        print("   %s: %s" % (p, results[p]["lines"][:1]))
    return 0


if __name__ == "__main__":
    sys.exit(main())
