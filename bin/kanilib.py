"""Kani lane: the real crates compiled in a scratch copy of /repo with harness modules injected under cfg(kani)."""
import os
import re
import shutil
import subprocess
import tempfile
import time

from vxlib import Machinery, VERIF, REPO

CACHE = os.environ.get("VERIF_CACHE", os.path.join(VERIF, ".cache"))

# name -> metadata.  `bound` non-empty = bounded stand-in (never counted as proved).
H = {
    "balance_try_new_exact": dict(crate="zkabacus-crypto", what="Balance/CustomerBalance/MerchantBalance::try_new(v) == Ok(v) iff v <= 2^63-1, else AmountTooLarge(v); all u64", functions=["za.Balance::try_new", "states.CustomerBalance::try_new", "states.MerchantBalance::try_new"]),
    "amount_constructors_exact": dict(crate="zkabacus-crypto", what="pay_merchant/pay_customer(v) == Ok(+-v) iff v <= 2^63-1; all u64", functions=["za.PaymentAmount::pay_merchant", "za.PaymentAmount::pay_customer", "za.PaymentAmount::zero"]),
    "balance_apply_exact": dict(crate="zkabacus-crypto", what="apply(b, a) == Ok(b -/+ a) iff result in [0, 2^63-1], else InsufficientFunds / AmountTooLarge; all (u64<=max, i64), overflow checks on", functions=["states.CustomerBalance::apply", "states.MerchantBalance::apply"]),
    "balance_try_add_exact": dict(crate="zkabacus-crypto", what="try_add exact over all pairs of balances", functions=["states.MerchantBalance::try_add"]),
    "amount_to_scalar_total": dict(crate="zkabacus-crypto", what="PaymentAmount::to_scalar never panics or wraps, for all i64 (including i64::MIN, decodable from the wire)", functions=["za.PaymentAmount::to_scalar"],
                                   native="let v = i64::from_le_bytes({V0});\n        let a: crate::PaymentAmount = bincode_free_amount(v);\n        let _ = a.to_scalar();"),
    "balance_to_scalar_total": dict(crate="zkabacus-crypto", what="Balance::to_scalar total for all u64", functions=["za.Balance::to_scalar"]),
    "amount_decode_total": dict(crate="zkabacus-crypto", what="decoding a PaymentAmount from any i64 wire value never panics, is lossless, and the decoded amount encodes to a scalar without panic (all i64 incl. i64::MIN)", functions=["serde derive Deserialize for PaymentAmount", "za.PaymentAmount::to_scalar"]),
    "balance_decode_invariant": dict(crate="zkabacus-crypto", what="decoding a CustomerBalance/MerchantBalance from any u64 wire value succeeds iff value <= 2^63-1 and is lossless (real serde derive of the three newtypes; all u64)", functions=["serde derive Deserialize for Balance"]),
    "channel_id_from_str_exact": dict(crate="zkabacus-crypto", what="ChannelId::from_str: Ok iff the base64 decoding (recording stub, any result of length <= 40 or an error) has exactly 32 bytes, and then the id is exactly those bytes; every other decoding result is an error, never a panic", functions=["states.<ChannelId as FromStr>::from_str"]),
    "array_visitor_total_n1": dict(crate="zkchannels-crypto", what="[G;1] sequence visitor: value or error (no panic) for any announced length <= N+2 and any size hint; Ok iff exactly N elements", functions=["serde.<[G; N] as SerializeElement>::deserialize"], note="complete for code that stops at capacity: the first N+1 steps of any longer sequence are identical"),
    "array_visitor_total_n5": dict(crate="zkchannels-crypto", what="[G;5] sequence visitor: value or error (no panic) for any announced length <= N+2 and any size hint; Ok iff exactly N elements", functions=["serde.<[G; N] as SerializeElement>::deserialize"]),
    "boxed_array_visitor_total_n1": dict(crate="zkchannels-crypto", what="Box<[G;1]> codec: value or error for any announced length", functions=["serde.<Box<[G; N]> as SerializeElement>::deserialize"]),
    "commit_scalars_respected_n1": dict(crate="zkchannels-crypto", what="generate_proof_commitments uses caller-given commitment scalars unchanged and stores the message unchanged (N=1; all given scalars, all RNG outputs; commit and from_bytes_wide stubbed)", functions=["cproof.CommitmentProofBuilder::generate_proof_commitments (statement 3: scalar selection closure)"], bound="tuple length N=1"),
    "commit_scalars_respected_n2": dict(crate="zkchannels-crypto", what="same, N=2", functions=["cproof.CommitmentProofBuilder::generate_proof_commitments (statement 3: scalar selection closure)"], bound="tuple length N=2"),
    "commit_scalars_respected_n3": dict(crate="zkchannels-crypto", what="same, N=3", functions=["cproof.CommitmentProofBuilder::generate_proof_commitments (statement 3: scalar selection closure)"], bound="tuple length N=3"),
    "commit_open_slots_fresh_n1": dict(crate="zkchannels-crypto", what="generate_proof_commitments: every slot left open by the caller gets a draw of its own (tagged RNG stub): open-slot scalars are draws, pairwise different, and different from the draws of the blinding factor and of its commitment scalar (N=1; all patterns of given/open slots)", functions=["cproof.CommitmentProofBuilder::generate_proof_commitments (statement 3: scalar selection closure)"], bound="tuple length N=1"),
    "commit_open_slots_fresh_n2": dict(crate="zkchannels-crypto", what="same, N=2", functions=["cproof.CommitmentProofBuilder::generate_proof_commitments (statement 3: scalar selection closure)"], bound="tuple length N=2"),
    "commit_open_slots_fresh_n3": dict(crate="zkchannels-crypto", what="same, N=3", functions=["cproof.CommitmentProofBuilder::generate_proof_commitments (statement 3: scalar selection closure)"], bound="tuple length N=3"),
    "secret_key_scalars_nonzero_n1": dict(crate="zkchannels-crypto", what="SecretKey::new (statements before `let x1`, sliced verbatim): x and every y_i are non-zero for every randomness stream containing up to 3 zero scalars at any positions (N=1)", functions=["ps.SecretKey::new (statements before the public x1: non-zero scalar sampling)"], bound="tuple length N=1; at most 3 zero draws in the stream"),
    "secret_key_scalars_nonzero_n2": dict(crate="zkchannels-crypto", what="same, N=2", functions=["ps.SecretKey::new (statements before the public x1: non-zero scalar sampling)"], bound="tuple length N=2; at most 3 zero draws in the stream"),
    "range_params_sign_each_digit": dict(crate="zkchannels-crypto", what="RangeConstraintParameters::new makes one key pair, signs exactly the digits 0..127 in order with it and publishes that key (KeyPair::new and Signature::new are recording stubs); complete for the fixed u = 128", functions=["range.RangeConstraintParameters::new"]),
    "secret_key_scalars_own_draws_n2": dict(crate="zkchannels-crypto", what="SecretKey::new (sampling statements, sliced verbatim): x and every y_i are pairwise different draws of the generator (tagged RNG stub), N=2", functions=["ps.SecretKey::new (statements before the public x1: non-zero scalar sampling)"], bound="tuple length N=2"),
    "secret_key_scalars_own_draws_n3": dict(crate="zkchannels-crypto", what="same, N=3", functions=["ps.SecretKey::new (statements before the public x1: non-zero scalar sampling)"], bound="tuple length N=3"),
    "range_digits_exact": dict(crate="zkchannels-crypto", what="prefix of generate_constraint_commitments (sign test + digit decomposition, sliced verbatim): Err iff value < 0; otherwise 9 digits < 128 with sum d_j*128^j == value; all i64, bit-precise, shape-independent", functions=["range.RangeConstraintBuilder::generate_constraint_commitments (statements before the digit proof builders)"]),
    "g1_codec_validates": dict(crate="zkchannels-crypto", what="G1 element codec: for all 48-byte strings the wire bytes reach bls12_381 G1Affine::from_compressed unchanged, exactly once, no non-validating decoder is reached, and the result is Ok iff that decoder accepts; shorter input is an error", functions=["serde.<G1Affine as SerializeElement>::deserialize"]),
    "g1_codec_short_input": dict(crate="zkchannels-crypto", what="G1 element codec: any input shorter than 48 bytes is an error (no panic) and reaches no decoder", functions=["serde.<G1Affine as SerializeElement>::deserialize"]),
    "g1_projective_codec_validates": dict(crate="zkchannels-crypto", what="G1Projective codec (every Commitment<G1> field): all 48-byte strings reach the validating G1Affine::from_compressed unchanged, exactly once; Ok iff it accepts", functions=["serde.<G1Projective as SerializeElement>::deserialize"]),
    "g2_projective_codec_validates": dict(crate="zkchannels-crypto", what="G2Projective codec: same, 96 bytes", functions=["serde.<G2Projective as SerializeElement>::deserialize"]),
    "g2_codec_validates": dict(crate="zkchannels-crypto", what="G2 element codec: same, all 96-byte strings, G2Affine::from_compressed", functions=["serde.<G2Affine as SerializeElement>::deserialize"]),
    "scalar_codec_validates": dict(crate="zkchannels-crypto", what="Scalar codec: all 32-byte strings reach Scalar::from_bytes (canonical only) unchanged; Ok iff it accepts; no reducing decoder (from_bytes_wide/from_raw) is reached", functions=["serde.<Scalar as SerializeElement>::deserialize"]),
    "big_boxed_array_total_n2": dict(crate="zkchannels-crypto", what="big_boxed_array::deserialize (codec of the 128 digit signatures; generic in N, checked at N=2): value or error, never a panic, for any number of presented elements <= N+2 and any size hint; error when fewer than N", functions=["serde.big_boxed_array::deserialize"], note="serde_big_array's own visitor is in the path (dependency code, executed, not assumed)"),
    "vec_visitor_bounded_allocation": dict(crate="zkchannels-crypto", what="Vec<G> visitor: capacity requested is bounded by a constant, not by the attacker-chosen size hint", functions=["serde.<Vec<G> as SerializeElement>::deserialize"]),
}


def _slice_digits():
    import vxlib
    o = vxlib.run_extract([{"id": "d", "file": "zkchannels-crypto/src/proofs/range.rs", "path": "impl RangeConstraintBuilder::generate_constraint_commitments", "mode": "slice", "stmts_until": "let digit_proof_builders", "raw": True}])["items"][0]
    if not o["ok"]:
        raise Machinery("range digits slice: %s" % o["error"])
    return o["text"]


def _slice_sk():
    import vxlib
    o = vxlib.run_extract([{"id": "sk", "file": "zkchannels-crypto/src/pointcheval_sanders.rs", "path": "impl SecretKey::new", "mode": "slice", "stmts_until": "let x1", "raw": True}])["items"][0]
    if not o["ok"]:
        raise Machinery("SecretKey::new slice: %s" % o["error"])
    return o["text"]


def _inject(scratch):
    with open(os.path.join(scratch, "zkchannels-crypto/src/pointcheval_sanders.rs"), "a") as f:
        f.write("\n#[cfg(kani)]\nfn vx_kani_sk_scalars<const N: usize>(rng: &mut impl Rng, g1: &G1Projective) -> (Scalar, Vec<Scalar>) {\n        %s\n        (x, ys.iter().copied().collect::<Vec<Scalar>>())\n}\n" % _slice_sk())
        f.write('#[cfg(kani)]\npub(crate) mod verif_kani_ps { include!("%s"); }\n' % os.path.join(VERIF, "kani/harness/zc_ps.rs"))
    with open(os.path.join(scratch, "zkchannels-crypto/src/proofs/commitment.rs"), "a") as f:
        f.write('\n#[cfg(kani)]\nmod verif_kani_cproof { include!("%s"); }\n' % os.path.join(VERIF, "kani/harness/zc_commitment.rs"))
    with open(os.path.join(scratch, "zkchannels-crypto/src/proofs/range.rs"), "a") as f:
        f.write("\n#[cfg(kani)]\nfn vx_kani_digits(value: i64) -> Result<[u64; RP_PARAMETER_L], ValueOutsideRange> {\n        %s\n        Ok(digits)\n}\n" % _slice_digits())
        f.write('#[cfg(kani)]\nmod verif_kani_range { include!("%s"); }\n' % os.path.join(VERIF, "kani/harness/zc_range.rs"))
    with open(os.path.join(scratch, "zkabacus-crypto/src/lib.rs"), "a") as f:
        f.write('\n#[cfg(kani)]\nmod verif_kani { include!("%s"); }\n' % os.path.join(VERIF, "kani/harness/za.rs"))
    with open(os.path.join(scratch, "zkabacus-crypto/src/states.rs"), "a") as f:
        f.write("\n" + open(os.path.join(VERIF, "kani/harness/za_states_hook.rs")).read())
    with open(os.path.join(scratch, "zkchannels-crypto/src/lib.rs"), "a") as f:
        f.write('\n#[cfg(kani)]\nmod verif_kani { include!("%s"); }\n' % os.path.join(VERIF, "kani/harness/zc.rs"))
    # the recording stubs of the bls12_381 decoders must name subtle::CtOption; subtle is already in Cargo.lock (transitive)
    ct = os.path.join(scratch, "zkchannels-crypto/Cargo.toml")
    t = open(ct).read()
    if not re.search(r"(?m)^subtle\s*=", t):
        t = t.replace("[dependencies]\n", "[dependencies]\nsubtle = \"2\"\n", 1)
        open(ct, "w").write(t)


def make_scratch():
    d = tempfile.mkdtemp(prefix="vf_kani.", dir="/tmp")
    subprocess.run(["rsync", "-a", "--exclude", "target", "--exclude", ".git", REPO + "/", d + "/"], check=True)
    _inject(d)
    return d


def _split(out):
    """per-harness chunks of cargo-kani output (terse, possibly interleaved by thread)"""
    res = {}
    cur = {}
    active = None
    for ln in out.split("\n"):
        m = re.match(r"^(?:Thread (\d+): )?Checking harness ([\w:]+)\.\.\.", ln)
        if m:
            t = m.group(1) or "0"
            cur[t] = m.group(2).split("::")[-1]
            res.setdefault(cur[t], "")
            active = t if m.group(1) is None else None
            continue
        m = re.match(r"^Thread (\d+): ?(.*)$", ln)
        if m:
            active = m.group(1)
            if active in cur:
                res[cur[active]] += m.group(2) + "\n"
            continue
        if ln.startswith("Manual Harness Summary") or ln.startswith("Complete - "):
            active = None
            continue
        if active is not None and active in cur:
            res[cur[active]] += ln + "\n"
    return res


def run_harnesses(pid, names, tier):
    """One Kani build+verify at a time per cache directory: concurrent checks share .cache/kani-target, and runs that
    overlapped there produced a spurious FAILED once; the lock makes concurrent use safe (it only serialises)."""
    import fcntl
    os.makedirs(CACHE, exist_ok=True)
    with open(os.path.join(CACHE, "kani.lock"), "w") as lk:
        fcntl.flock(lk, fcntl.LOCK_EX)
        try:
            return _run_harnesses(pid, names, tier)
        finally:
            fcntl.flock(lk, fcntl.LOCK_UN)


def _run_harnesses(pid, names, tier):
    out = {"harnesses": [], "cmds": [], "solver_s": 0.0, "trusted": set(["Kani 0.68 / CBMC 6.11 (bit-precise machine arithmetic, overflow checks on)", "harness Deserializer/SeqAccess of kani/harness/zc.rs stands for every serde data format"])}
    for n in names:
        if n not in H:
            raise Machinery("unknown Kani harness %s" % n)
    scratch = make_scratch()
    try:
        groups = {}
        for n in names:
            m = H[n]
            groups.setdefault((m["crate"], m.get("features", "")), []).append(n)
        for (crate, feats), hs in groups.items():
            cmd = ["cargo", "kani", "-p", crate, "-Z", "function-contracts", "-Z", "stubbing", "-j", "8", "--output-format", "terse"]
            if feats:
                cmd += ["--features", feats]
            for h in hs:
                cmd += ["--harness", h]
            env = dict(os.environ, CARGO_NET_OFFLINE="true", CARGO_TARGET_DIR=os.path.join(CACHE, "kani-target"))
            t0 = time.time()
            try:
                p = subprocess.run(cmd, cwd=scratch, env=env, capture_output=True, text=True, timeout=1500)
            except subprocess.TimeoutExpired:
                for h in hs:
                    out["harnesses"].append(dict(name=h, ok=False, what=H[h]["what"], machinery="timeout", detail="timeout", functions=H[h]["functions"]))
                continue
            txt = p.stdout + "\n" + p.stderr
            out["cmds"].append("CARGO_NET_OFFLINE=true " + " ".join(cmd) + "  (in a scratch copy of /repo with kani/harness/*.rs injected)")
            chunks = _split(txt)
            for h in hs:
                meta = H[h]
                c = chunks.get(h)
                rec = dict(name=h, what=meta["what"], functions=meta["functions"], bound=meta.get("bound", ""), ok=False)
                if c is None:
                    rec["machinery"] = "no result for harness (build failure?)\n" + txt[-3000:]
                    rec["detail"] = "no result"
                elif "VERIFICATION:- SUCCESSFUL" in c:
                    rec["ok"] = True
                    rec["detail"] = "SUCCESSFUL"
                elif "VERIFICATION:- FAILED" in c:
                    failed = re.findall(r"Failed Checks: (.*)", c)
                    rec["failed_check"] = re.sub(r"\W+", "-", failed[0])[:80] if failed else ""
                    if any("unwinding assertion" in f for f in failed) and len(failed) == sum(1 for f in failed if "unwinding assertion" in f):
                        rec["machinery"] = "unwinding bound too small: %s" % failed
                    rec["detail"] = "FAILED: " + "; ".join(failed)[:1500]
                    rec["replay"], rec["has_input"], confirmed = _playback(scratch, crate, feats, h, meta, failed, c)
                    if not confirmed and not rec.get("machinery"):
                        rec["machinery"] = "harness %s FAILED once but the separate confirmation run did not fail again (%s)" % (h, "; ".join(failed)[:300])
                else:
                    rec["machinery"] = "unrecognised Kani output\n" + c[-2000:]
                    rec["detail"] = "?"
                m = re.search(r"Verification Time: ([\d\.]+)s", c or "")
                if m:
                    out["solver_s"] += float(m.group(1))
                out["harnesses"].append(rec)
    finally:
        shutil.rmtree(scratch, ignore_errors=True)
    return out


def _playback(scratch, crate, feats, h, meta, failed, chunk):
    """Ask Kani for concrete values and turn them into a replay file."""
    cmd = ["cargo", "kani", "-p", crate, "-Z", "function-contracts", "-Z", "stubbing", "-Z", "concrete-playback", "--concrete-playback=print", "--harness", h]
    if feats:
        cmd += ["--features", feats]
    env = dict(os.environ, CARGO_NET_OFFLINE="true", CARGO_TARGET_DIR=os.path.join(CACHE, "kani-target"))
    vals = []
    txt = ""
    try:
        p = subprocess.run(cmd, cwd=scratch, env=env, capture_output=True, text=True, timeout=900)
        txt = p.stdout + p.stderr
        m = re.search(r"let concrete_vals: Vec<Vec<u8>> = vec!\[(.*?)\];", txt, flags=re.S)
        if m:
            vals = re.findall(r"vec!\[([\d,\s]*)\]", m.group(1))
    except subprocess.TimeoutExpired:
        pass
    body = []
    body.append("// replay for Kani harness `%s` (%s)" % (h, meta["what"]))
    body.append("// failed checks: %s" % "; ".join(failed))
    body.append("// concrete values found by Kani (one byte vector per kani::any() call, in order):")
    for i, v in enumerate(vals):
        body.append("//   V%d = [%s]" % (i, " ".join(v.split())))
    if not vals:
        body.append("//   (none obtained)")
    body.append("//")
    body.append("// harness source: kani/harness/*.rs ; run natively with: bin/check <prop> --replay <this file>")
    playback = re.search(r"(#\[test\]\s*fn kani_concrete_playback.*?\n\})", txt, flags=re.S)
    if playback:
        body.append("// ---- Kani's generated playback test ----")
        body.append(playback.group(1))
    body.append("/* ---- verifier output ----\n%s\n*/" % chunk[-3000:])
    # the playback run is a second, separate verification of the same harness: it must fail again for the failure to count
    confirmed = "VERIFICATION:- FAILED" in txt or bool(vals)
    if not txt:
        confirmed = True  # confirmation run timed out: keep the first verdict
    return "\n".join(body) + "\n", bool(vals), confirmed


def replay_native(pid, path):
    print(open(path).read()[:3000])
    print("(native replay: see findings/ for the native demonstrations of the recorded findings)")
    return 0
