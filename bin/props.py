"""Registry: which machinery decides which property (units, Kani harnesses, scans), and what is assumed."""

CRYPTO_AXIOMS = [
    "prelude axioms: Scalar is a field, G1/G2/Gt prime-order groups, pairing bilinear and non-degenerate (assumed contracts of bls12_381; audited natively by tools/axiom-audit in the thorough tier)",
    "G1Affine/G1Projective (and G2) identified: conversions are the identity on the abstract element",
    "Verus 0.2026.09.13 + Z3; rustc 1.98.1",
    "extraction edits D0-D10 of tools/vx-extract (logged per function in extraction_edits)",
    "monomorphisation: results hold per instantiation (N, G) listed in functions_under_contract",
]

PER_INST = "results are per instantiation of the monomorphised functions, N in {1,2,3,5,8,13}; the quick tier runs two instantiations per unit, the thorough tier all"

PROPS = {
    "C07": {
        "level": "proof",
        "units": ["ps", "keys", "pedersen", "cor_ps", "lemmas_ps", "lemmas_algebra", "validators"], "kani": ["secret_key_scalars_own_draws_n2", "secret_key_scalars_nonzero_n1"],
        "assumptions": [
            PER_INST,
            "key well-formedness (ps_key_ok) is established by KeyPair::new (C19) or by decode-time validation (C15)",
            "SecretKey::new and the closure-capturing array builders are contract-only in Verus (bounded Kani stand-in, see C19)",
            "re-randomiser r != 0 and blind-signing randomiser u != 0 (probability 2^-255 otherwise; the contracts state exactly what is produced when they are 0)",
        ],
        "trusted_base": CRYPTO_AXIOMS,
    },
    "C08": {
        "level": "proof",
        "units": ["sproof", "ps", "keys", "cor_ps", "cor_sproof", "lemmas_ps", "lemmas_schnorr", "validators"],
        "scans": ["verified_blinded_message_sites"],
        "kani": ["g1_codec_validates", "secret_key_scalars_own_draws_n2"],
        "assumptions": [PER_INST, "a request arriving from the wire has its G1 atoms decoded by the element codec, which is shown to accept exactly what bls12_381's validating decoder accepts (prime-order subgroup membership is that decoder's documented contract)", "PS unforgeability and discrete-log binding are cryptographic hypotheses, not decided here"],
        "trusted_base": CRYPTO_AXIOMS,
    },
    "C09": {
        "level": "proof",
        "units": ["pedersen", "keys", "cor_pedersen", "lemmas_pedersen", "lemmas_algebra"],
        "assumptions": [
            "perturbation clauses hold for parameters without identity generators (invariant of generated/decoded PedersenParameters; from_generators accepts any input)",
            PER_INST,
        ],
        "trusted_base": CRYPTO_AXIOMS,
    },
    "C10": {
        "level": "proof",
        "units": ["cproof", "sproof", "range", "transcripts", "za_proofs_new", "za_pay_new", "lemmas_range_complete", "cor_cproof", "cor_sproof", "lemmas_schnorr", "lemmas_range_ledger", "lemmas_pedersen", "lemmas_ps", "pedersen"],
        "kani": ["commit_scalars_respected_n1", "commit_scalars_respected_n2", "commit_scalars_respected_n3", "range_digits_exact"],
        "assumptions": [
            PER_INST,
            "CommitmentProofBuilder::generate_proof_commitments, RangeConstraintBuilder::generate_constraint_commitments/_response are contract-only in Verus (closures capture &mut rng / ArrayVec::into_iter); their contracts are assumptions of the completeness lemmas and are checked by Kani in bounded form",
        ],
        "trusted_base": CRYPTO_AXIOMS,
    },
    "C11": {
        "level": "proof",
        "units": ["cproof", "sproof", "cor_cproof", "cor_sproof", "lemmas_schnorr", "lemmas_pedersen", "lemmas_ps", "pedersen"], "kani": ["g1_projective_codec_validates"],
        "assumptions": [PER_INST, "challenge != 0 for the commitment-perturbation clause"],
        "trusted_base": CRYPTO_AXIOMS,
    },
    "C12": {
        "level": "proof",
        "units": ["challenge", "transcripts", "za_merchant", "cor_merchant", "za_context"],
        "assumptions": [
            PER_INST,
            "SHA3-256 collision resistance (to go from 'transcript changes' to 'challenge changes'); fixed-width encodings to_bytes of scalars and points are injective (documented contract of bls12_381)",
            "ChallengeBuilder::finish is contract-only: the challenge is a function of the accumulated transcript alone",
        ],
        "trusted_base": CRYPTO_AXIOMS,
    },
    "C13": {
        "level": "proof",
        "units": ["range", "sproof", "lemmas_range_ledger", "lemmas_range_complete", "lemmas_range_soundness", "cor_merchant", "ps"],
        "kani": ["range_digits_exact"],
        "assumptions": [
            PER_INST,
            "PS unforgeability for digits outside 0..127 (the signing key of the digit signatures is discarded)",
            "RangeConstraintParameters::new/validate and generate_constraint_commitments are contract-only in Verus (closure captures rng / enumerate); Kani harness decides the digit decomposition for all i64",
        ],
        "trusted_base": CRYPTO_AXIOMS,
    },
    "C19": {
        "level": "proof",
        "units": ["keys", "sampling", "lemmas_ps", "ps", "za_config"], "kani": ["secret_key_scalars_nonzero_n1", "secret_key_scalars_nonzero_n2", "secret_key_scalars_own_draws_n2", "secret_key_scalars_own_draws_n3"], "kani_thorough": ["range_params_sign_each_digit"],
        "assumptions": [
            PER_INST,
            "termination of rejection-sampling loops is not proved (an all-zero RNG never terminates)",
            "SecretKey::new, PedersenParameters::new, RangeConstraintParameters::new fill arrays with a closure capturing &mut rng: contract-only in Verus; bounded Kani stand-in",
        ],
        "trusted_base": CRYPTO_AXIOMS,
    },
    "C01": {
        "level": "proof",
        "units": ["za_merchant", "sproof", "cproof", "challenge", "transcripts", "cor_merchant", "lemmas_schnorr", "lemmas_ps"], "kani": ["secret_key_scalars_own_draws_n2"],
        "scans": ["verified_blinded_state_sites", "verified_blinded_close_state_sites", "verified_blinded_message_sites"],
        "assumptions": [
            "Fiat-Shamir in the random-oracle model and the forking step (from one accepting proof to two transcripts) are cryptographic, outside any program logic; discrete-log binding of the commitments",
            "decided here: the verifier accepts EXACTLY the establish relation under c = chal(T), T contains every non-response field of the proof and every public value, the hand-over returns the proven commitments, and initialize/activate blind-sign exactly those commitments",
        ],
        "trusted_base": CRYPTO_AXIOMS,
    },
    "C02": {
        "level": "proof",
        "units": ["za_merchant", "sproof", "cproof", "range", "challenge", "transcripts", "cor_merchant", "lemmas_schnorr", "lemmas_range_soundness", "za_nonce_revlock"],
        "scans": ["verified_blinded_state_sites", "verified_blinded_close_state_sites", "verified_blinded_message_sites"],
        "assumptions": [
            "as C01, plus unforgeability of PS signatures (pay token, digit signatures)",
            "the special-soundness lemma for the full pay relation is stated, not mechanised",
        ],
        "trusted_base": CRYPTO_AXIOMS,
    },
    "C03": {
        "level": "proof",
        "units": ["za_customer", "za_states", "za_merchant", "cor_customer", "lemmas_ps", "ps"], "kani": ["g1_codec_validates"],
        "scans": ["revocation_pair_release_sites", "lock_message_sites", "no_unsafe"],
        "assumptions": [
            "the re-randomiser drawn in close() is non-zero (probability 2^-255 otherwise)",
            "'the lock has not been disclosed earlier' = ownership (RevocationPair is not Clone; disclosed ones were moved out) + freshness of RevocationPair::new, which is probabilistic and NOT decided",
            "byte-for-byte unchanged on refusal is decided as value equality (Err(s) ==> s == self); encoding is a function of the value",
        ],
        "trusted_base": CRYPTO_AXIOMS,
    },
    "C04": {
        "level": "proof",
        "units": ["za_customer", "za_states", "za_lib", "za_merchant", "za_proofs_new", "za_pay_new", "lemmas_range_complete", "lemmas_range_ledger", "lemmas_schnorr"],
        "kani": ["balance_try_new_exact", "amount_constructors_exact", "balance_apply_exact", "balance_try_add_exact"],
        "assumptions": [
            "blind-signing randomiser u != 0 and re-randomiser r != 0",
            "completeness of EstablishProof/PayProof (prover output accepted by verifier) rests on the assumed commit-phase contracts of CommitmentProofBuilder::generate_proof_commitments and RangeConstraintBuilder::generate_constraint_commitments (closure captures &mut rng); EstablishProof::new / PayProof::new are contract-only here",
        ],
        "trusted_base": CRYPTO_AXIOMS,
    },
    "C05": {
        "level": "proof",
        "units": ["za_merchant", "za_nonce_revlock", "pedersen"],
        "scans": ["revocation_pair_sites", "serde_routing", "no_unsafe"],
        "assumptions": [
            "RevocationPair::new is contract-only in Verus (u8 index += 1 would need 256 consecutive non-canonical digests to overflow: probability ~2^-256k)",
            "SHA3 preimage resistance is a cryptographic hypothesis",
        ],
        "trusted_base": CRYPTO_AXIOMS,
    },
    "C06": {
        "level": "proof",
        "units": ["za_merchant", "za_states", "challenge", "transcripts", "cor_merchant", "lemmas_ps", "lemmas_schnorr", "za_context"],
        "assumptions": [
            "SHA3 collision resistance (transcript differs ==> challenge differs); challenge != 0; commitments of honest proofs are not the identity; cross-session blinding-factor coincidences are negligible",
            "the revocation-commitment parameters are not hashed into the pay challenge; replacing them changes the operand of the revocation-lock sub-proof equation (a linear coincidence otherwise)",
            "decided here: exactness and transcript coverage of both verifiers, Context = SHA3 of the context bytes is hashed, check_close_signature == PS validity on the full close-state message",
        ],
        "trusted_base": CRYPTO_AXIOMS,
    },
    "C14": {
        "level": "proof",
        "units": ["ps", "sproof", "cproof", "za_customer", "za_states", "za_nonce_revlock", "lemmas_ps", "za_proofs_new", "za_pay_new"],
        "kani": ["commit_open_slots_fresh_n1", "commit_open_slots_fresh_n2", "commit_open_slots_fresh_n3"],
        "assumptions": [
            "DECIDED: structural freshness only - in EstablishProof::new / PayProof::new every published commitment scalar and the commitment scalar behind every hidden response (nonce, revocation locks, channel id) are pairwise different draws of the call (positions in the RNG draw log); this rests on the clause 'open slots are fresh draws' of CommitmentProofBuilder::generate_proof_commitments, whose scalar-selection statement is contract-only in Verus (bounded Kani stand-in)",
            "DECIDED: structural freshness only - every signature shown is randomize_r(blind_bf(sigma)) with r appended to the RNG draw log in the same call; closing signatures are re-randomized; nonces come from fresh draws; Ready::start reveals the old nonce only; lock releases the old pair only",
            "NOT DECIDABLE by any contract (assumed): that two values are DIFFERENT across messages (true only with overwhelming probability over the draws, false for a constant RNG), and zero-knowledge itself",
        ],
        "trusted_base": CRYPTO_AXIOMS,
    },
    "C15": {
        "level": "proof",
        "units": ["za_nonce_revlock", "validators"],
        "kani": ["balance_decode_invariant", "g1_codec_validates", "g2_codec_validates", "scalar_codec_validates", "channel_id_from_str_exact", "array_visitor_total_n1", "array_visitor_total_n5", "boxed_array_visitor_total_n1", "g1_projective_codec_validates", "g2_projective_codec_validates", "amount_decode_total"],
        "scans": ["serde_routing", "nonce_sites", "revocation_pair_sites", "validated_constructor_sites"],
        "assumptions": [
            "bls12_381 decoders accept canonical, on-curve, in-subgroup encodings only (documented contract of from_compressed/from_bytes)",
            "serde-derive/bincode encode a struct as the concatenation of its fields in declaration order; code generated by serde_derive is not under contract",
        ],
        "trusted_base": CRYPTO_AXIOMS,
    },
    "C16": {
        "level": "proof",
        "kani": ["array_visitor_total_n1", "array_visitor_total_n5", "boxed_array_visitor_total_n1", "vec_visitor_bounded_allocation", "g1_codec_short_input", "channel_id_from_str_exact", "big_boxed_array_total_n2", "amount_decode_total"],
        "scans": ["no_unsafe"],
        "assumptions": [
            "code generated by serde_derive and bincode's own reader are not under contract (macro-generated / dependency)",
            "the sequence visitors are driven by a harness SeqAccess yielding any number of elements <= N+2 with any size hint; complete for code that stops at capacity",
        ],
        "trusted_base": [],
    },
    "C17": {
        "level": "proof",
        "units": ["za_lib", "za_states", "lemmas_range_ledger"],
        "kani": ["balance_try_new_exact", "amount_constructors_exact", "balance_apply_exact", "balance_try_add_exact", "amount_to_scalar_total", "balance_to_scalar_total", "amount_decode_total"],
        "assumptions": ["Scalar::from(u64) == iota(x) (assumed contract of bls12_381)"],
        "trusted_base": CRYPTO_AXIOMS,
    },
    "C18": {
        "level": "proof",
        "units": ["za_nonce_revlock", "za_states", "cor_customer", "lemmas_ps", "pk_bytes", "za_chanid", "za_merchant", "transcripts", "ps"],
        "scans": ["nonce_sites"],
        "assumptions": ["SHA3 collision resistance for 'the channel id changes' (the hashed string is PROVED to be the five inputs in order: slice of ChannelId::new + PublicKey::to_bytes; the five-chunk list determines each input given the fixed widths of the first three, flatten-injectivity is not mechanised); y_2 != 0 from key well-formedness (C19)", "the last statement of ChannelId::new (digest -> [u8; 32]) and ChannelId::to_scalar are contract-only (byte slicing); to_scalar has a bounded stand-in (thorough tier)"],
        "trusted_base": CRYPTO_AXIOMS,
    },
    "C20": {
        "level": "other",
        "units": ["za_customer", "za_nonce_revlock"], "kani": ["balance_decode_invariant", "amount_decode_total"],
        "scans": ["serde_routing", "customer_state_shapes"],
        "explanation": "modular argument: restored value == original value field by field (validators return the same fields for every constructed value: Verus contracts; shapes of the five stage structs carry both derives and no skip/default/flatten/rename: syn scan) ==> identical behaviour in safe Rust without interior mutability; the serde-derive/bincode round trip on mirrored shapes is an assumption",
        "assumptions": ["serde-derive/bincode round trip on mirrored shapes; codec pair to_compressed/from_compressed inverse"],
        "trusted_base": CRYPTO_AXIOMS,
    },
}

# Verus item -> complete Kani harness that decides the same obligation bit-precisely (see bin/check)
# Verus item -> COMPLETE bit-precise Kani harness that decides the same function for all inputs.  A Verus obligation of
# such an item that fails while the harness passes is proof-shape drift (the code changed shape, not meaning): exit 2.
SHADOWS = {
    "range.RangeConstraintBuilder::generate_constraint_commitments.slice_digits": "range_digits_exact",
    "states.MerchantBalance::apply": "balance_apply_exact",
    "states.CustomerBalance::apply": "balance_apply_exact",
    "states.MerchantBalance::try_new": "balance_try_new_exact",
    "states.CustomerBalance::try_new": "balance_try_new_exact",
    "za.Balance::try_new": "balance_try_new_exact",
    "states.MerchantBalance::try_add": "balance_try_add_exact",
    "za.PaymentAmount::pay_merchant": "amount_constructors_exact",
    "za.PaymentAmount::pay_customer": "amount_constructors_exact",
}
