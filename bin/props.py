"""Registry: which machinery decides which property (units, Kani harnesses, scans), and what is assumed."""

CRYPTO_AXIOMS = [
    "prelude axioms: Scalar is a field, G1/G2/Gt prime-order groups, pairing bilinear and non-degenerate (audited against bls12_381 by tools/axiom-audit in the thorough tier)",
    "G1Affine/G1Projective (and G2) identified: conversions are the identity on the abstract element",
    "Verus 0.2026.09.13 + Z3; rustc 1.98.1",
    "extraction edits D0-D10 of tools/vx-extract (logged per function in extraction_edits)",
]

PROPS = {
    "C09": {
        "level": "proof",
        "units": ["pedersen"],
        "assumptions": [
            "perturbation clauses hold for parameters without identity generators (invariant of generated/decoded PedersenParameters; from_generators accepts any input)",
            "results are per instantiation (G, N) of the monomorphised functions, N in {1,2,3,5,8,13}; quick tier runs two instantiations",
        ],
        "trusted_base": CRYPTO_AXIOMS,
    },
}
