"""Registry: which machinery decides which property (units, Kani harnesses, scans), and what is assumed."""

CRYPTO_AXIOMS = [
    "prelude axioms: Scalar is a field, G1/G2/Gt prime-order groups, pairing bilinear and non-degenerate (assumed contracts of bls12_381; audited natively by tools/axiom-audit in the thorough tier)",
    "G1Affine/G1Projective (and G2) identified: conversions are the identity on the abstract element",
    "Verus 0.2026.09.13 + Z3; rustc 1.98.1",
    "extraction edits D0-D10 of tools/vx-extract (logged per function in extraction_edits)",
    "monomorphisation: results hold per instantiation (N, G) listed in functions_under_contract",
]

PER_INST = "results are per instantiation of the monomorphised functions, N in {1,2,3,5,8,13}; the quick tier runs two instantiations per unit, the thorough tier all"

PROPS = {
    "C07": {
        "level": "proof",
        "units": ["ps", "keys", "pedersen"],
        "assumptions": [
            PER_INST,
            "key well-formedness (ps_key_ok) is established by KeyPair::new (C19) or by decode-time validation (C15)",
            "SecretKey::new and the closure-capturing array builders are contract-only in Verus (bounded Kani stand-in, see C19)",
            "re-randomiser r != 0 and blind-signing randomiser u != 0 (probability 2^-255 otherwise; the contracts state exactly what is produced when they are 0)",
        ],
        "trusted_base": CRYPTO_AXIOMS,
    },
    "C08": {
        "level": "proof",
        "units": ["sproof", "ps", "keys"],
        "scans": ["verified_blinded_message_sites"],
        "assumptions": [PER_INST, "PS unforgeability and discrete-log binding are cryptographic hypotheses, not decided here"],
        "trusted_base": CRYPTO_AXIOMS,
    },
    "C09": {
        "level": "proof",
        "units": ["pedersen", "keys"],
        "assumptions": [
            "perturbation clauses hold for parameters without identity generators (invariant of generated/decoded PedersenParameters; from_generators accepts any input)",
            PER_INST,
        ],
        "trusted_base": CRYPTO_AXIOMS,
    },
    "C10": {
        "level": "proof",
        "units": ["cproof", "sproof", "range", "transcripts"],
        "assumptions": [
            PER_INST,
            "CommitmentProofBuilder::generate_proof_commitments, RangeConstraintBuilder::generate_constraint_commitments/_response are contract-only in Verus (closures capture &mut rng / ArrayVec::into_iter); their contracts are assumptions of the completeness lemmas and are checked by Kani in bounded form",
        ],
        "trusted_base": CRYPTO_AXIOMS,
    },
    "C11": {
        "level": "proof",
        "units": ["cproof", "sproof"],
        "assumptions": [PER_INST, "challenge != 0 for the commitment-perturbation clause"],
        "trusted_base": CRYPTO_AXIOMS,
    },
    "C12": {
        "level": "proof",
        "units": ["challenge", "transcripts"],
        "assumptions": [
            PER_INST,
            "SHA3-256 collision resistance (to go from 'transcript changes' to 'challenge changes'); fixed-width encodings to_bytes of scalars and points are injective (documented contract of bls12_381)",
            "ChallengeBuilder::finish is contract-only: the challenge is a function of the accumulated transcript alone",
        ],
        "trusted_base": CRYPTO_AXIOMS,
    },
    "C13": {
        "level": "proof",
        "units": ["range", "sproof"],
        "assumptions": [
            PER_INST,
            "PS unforgeability for digits outside 0..127 (the signing key of the digit signatures is discarded)",
            "RangeConstraintParameters::new/validate and generate_constraint_commitments are contract-only in Verus (closure captures rng / enumerate); Kani harness decides the digit decomposition for all i64",
        ],
        "trusted_base": CRYPTO_AXIOMS,
    },
    "C19": {
        "level": "proof",
        "units": ["keys", "sampling"],
        "assumptions": [
            PER_INST,
            "termination of rejection-sampling loops is not proved (an all-zero RNG never terminates)",
            "SecretKey::new, PedersenParameters::new, RangeConstraintParameters::new fill arrays with a closure capturing &mut rng: contract-only in Verus; bounded Kani stand-in",
        ],
        "trusted_base": CRYPTO_AXIOMS,
    },
}
