#!/usr/bin/env python3
"""Regenerate MANIFEST.json from bin/props.py (one check per claimed property)."""
import json, os, sys
sys.path.insert(0, os.path.dirname(os.path.abspath(__file__)))
import props as P

TITLES = {json.loads(l)["id"]: json.loads(l)["title"] for l in open("/verif/properties.jsonl")}
NOT_APPLICABLE = {}

TECH = {
    "verus": "contract-based deductive verification (Verus/Z3) of functions extracted verbatim from /repo on every run",
    "kani": "Kani/CBMC harnesses on the compiled real crate (loop-free or completely unwound: complete over the machine-integer domain)",
    "scan": "syn site/shape scans for the syntactic side conditions",
}

def technique(cfg):
    t = []
    if cfg.get("units"): t.append(TECH["verus"])
    if cfg.get("kani"): t.append(TECH["kani"])
    if cfg.get("scans"): t.append(TECH["scan"])
    return "; ".join(t)

checks = []
for pid in sorted(P.PROPS):
    cfg = P.PROPS[pid]
    lvl = cfg.get("level", "proof")
    text = {
        "proof": "Every obligation generated for this property (tagged postconditions/invariants of the real functions, their implicit no-panic/precondition/overflow obligations, glue lemmas, Kani harnesses, site scans) is discharged by the verifier on the current tree, for all inputs and all iterations; a change that breaks the property fails a named obligation. The cryptographic/probabilistic clauses listed in level_note are assumptions, not counted as discharged.",
        "other": "Modular argument over discharged contracts plus a stated dependency assumption (see level_note); not a full proof.",
    }[lvl]
    checks.append({
        "property_id": pid,
        "quick_cmd": "bin/check %s --tier quick" % pid,
        "thorough_cmd": "bin/check %s --tier thorough" % pid,
        "evidence_file": "/verif/evidence/%s.json" % pid,
        "replay_cmd_template": "bin/check %s --replay {path}" % pid,
        "engine": "vx",
        "level_claimed": {"category": lvl, "text": text, "design_ref": "DESIGN.md section 4, %s" % pid},
        "level_note": " | ".join(cfg.get("assumptions", []))[:3000],
        "technique": technique(cfg),
    })

m = {
    "version": 1,
    "setup_cmd": "bash /verif/bin/setup.sh",
    "hooks": {
        "guard": "none",
        "enable": "no hook commits in /repo: contracts are attached to functions extracted from /repo on every run (Verus), or injected into a scratch copy under cfg(kani) (Kani)",
        "baseline_off_cmd": "cd /repo && cargo test --workspace --no-fail-fast --offline",
        "source_commits": [],
        "add_only": True,
    },
    "engines": [
        {"name": "vx", "path": "/verif/bin/check", "serves_properties": sorted(P.PROPS), "kind_free_text": "contract-based deductive verification: tools/vx-extract (syn) slices the real functions, verus/contracts/*.vspec attach requires/ensures/invariants, Verus discharges unit by unit; Kani/CBMC for machine-integer and decoder code; syn scans for site conditions"},
    ],
    "checks": checks,
    "notes": "fix: commits in /repo repair six genuine defects found by these checks (known_findings.jsonl lists them as fixed). Exit 2 = machinery trouble (lost anchor, unsupported construct), never an alarm.",
    "not_applicable": [{"property_id": k, "reason": v} for k, v in sorted(NOT_APPLICABLE.items()) if k not in P.PROPS],
}
json.dump(m, open("/verif/MANIFEST.json", "w"), indent=1)
print("MANIFEST.json: %d checks" % len(checks))
