// BOUNDED STAND-IN (native executable contracts), appended to zkchannels-crypto/src/proofs/commitment.rs of a scratch copy.
#[cfg(test)]
mod verif_standins {
    use super::*;
    use rand::SeedableRng;
    fn rng() -> rand::rngs::StdRng { rand::rngs::StdRng::seed_from_u64(0x5eed) }

    fn reference<const N: usize>(p: &CommitmentProof<G1Projective, N>, params: &PedersenParameters<G1Projective, N>, c: Scalar) -> bool {
        let mut lhs = *params.h() * p.blinding_factor_response_scalar;
        for i in 0..N { lhs += params.gs()[i] * p.message_response_scalars[i]; }
        lhs == p.scalar_commitment.to_element() + p.commitment.to_element() * c
    }

    fn check<const N: usize>() {
        let mut rng = rng();
        let params = PedersenParameters::<G1Projective, N>::new(&mut rng);
        for m in [[Scalar::zero(); N], [Scalar::one(); N], [-Scalar::one(); N], [Scalar::from(9); N]] {
            let mut given = [None; N];
            given[0] = Some(Scalar::zero());
            let b = CommitmentProofBuilder::generate_proof_commitments(&mut rng, Message::new(m), &given, &params);
            assert!(b.conjunction_commitment_scalars()[0] == Scalar::zero(), "STANDIN cproof.generate_proof_commitments: caller-chosen commitment scalar not used");
            let c = ChallengeBuilder::new().with(&b).finish();
            let p = b.generate_proof_response(c);
            assert!(ChallengeBuilder::new().with(&p).finish().to_scalar() == c.to_scalar(), "STANDIN cproof: builder and proof challenges differ");
            assert!(p.verify_knowledge_of_opening(&params, c), "STANDIN cproof.verify_knowledge_of_opening: honest proof rejected, N={}", N);
            // exactness on structured perturbations: other challenges (incl. the negated one), negated / shifted commitments, responses
            let mut variants: Vec<(CommitmentProof<G1Projective, N>, Scalar)> = Vec::new();
            for c2 in [-c.to_scalar(), c.to_scalar() + Scalar::one(), Scalar::zero()] { variants.push((p.clone(), c2)); }
            let mut v = p.clone(); v.commitment = Commitment(-p.commitment.to_element()); variants.push((v, c.to_scalar()));
            let mut v = p.clone(); v.scalar_commitment = Commitment(-p.scalar_commitment.to_element()); variants.push((v, c.to_scalar()));
            let mut v = p.clone(); v.scalar_commitment = Commitment(p.scalar_commitment.to_element() + G1Projective::generator()); variants.push((v, c.to_scalar()));
            let mut v = p.clone(); v.blinding_factor_response_scalar += Scalar::one(); variants.push((v, c.to_scalar()));
            for i in 0..N { let mut v = p.clone(); v.message_response_scalars[i] += Scalar::one(); variants.push((v, c.to_scalar())); }
            for (v, c2) in variants {
                let want = reference(&v, &params, c2);
                let got = v.verify_knowledge_of_opening(&params, challenge_from(c2));
                assert_eq!(got, want, "STANDIN cproof.verify_knowledge_of_opening: disagrees with com(z; z_r) == T + c*C, N={}", N);
            }
        }
    }
    /// the documented patterns inside ONE proof: equal slots (same value, same commitment scalar) give equal responses and the
    /// proof still verifies; messages with small-negative, word-boundary and high-byte entries verify
    fn check_patterns<const N: usize>() {
        let mut rng = rng();
        let params = PedersenParameters::<G1Projective, N>::new(&mut rng);
        let two63 = Scalar::from(1u64 << 63);
        let vals = [Scalar::from(7), -Scalar::one(), -Scalar::from(255), two63, Scalar::from(u64::MAX), Scalar::from_raw([1000, 0, 0, 0x2a << 56]), Scalar::zero()];
        for v in vals {
            let mut m = [Scalar::from(3); N];
            m[0] = v; m[N - 1] = v;
            let s = Scalar::from(11);
            let mut given = [None; N];
            given[0] = Some(s); given[N - 1] = Some(s);
            let b = CommitmentProofBuilder::generate_proof_commitments(&mut rng, Message::new(m), &given, &params);
            let c = ChallengeBuilder::new().with(&b).finish();
            let p = b.generate_proof_response(c);
            assert!(p.conjunction_response_scalars()[0] == p.conjunction_response_scalars()[N - 1], "STANDIN cproof: equal slots under the same commitment scalar gave different responses");
            assert!(p.verify_knowledge_of_opening(&params, c), "STANDIN cproof.verify_knowledge_of_opening: honest proof with two equal response scalars / entry {:?} rejected, N={}", v, N);
            assert_eq!(p.verify_knowledge_of_opening(&params, c), reference(&p, &params, c.to_scalar()));
        }
    }
    /// public addition inside ONE proof: two slots share a commitment scalar but carry different values; the responses differ
    /// by c * (difference) and the honest proof verifies
    fn check_public_addition<const N: usize>() {
        let mut rng = rng();
        let params = PedersenParameters::<G1Projective, N>::new(&mut rng);
        for (a, d) in [(Scalar::from(7), Scalar::from(5)), (Scalar::zero(), Scalar::one()), (-Scalar::one(), Scalar::from(1u64 << 40))] {
            let mut m = [Scalar::from(3); N];
            m[0] = a; m[N - 1] = a + d;
            let s = Scalar::from(13);
            let mut given = [None; N];
            given[0] = Some(s); given[N - 1] = Some(s);
            let b = CommitmentProofBuilder::generate_proof_commitments(&mut rng, Message::new(m), &given, &params);
            let c = ChallengeBuilder::new().with(&b).finish();
            let p = b.generate_proof_response(c);
            let z = p.conjunction_response_scalars();
            assert!(z[N - 1] == z[0] + c.to_scalar() * d, "STANDIN cproof.generate_proof_response: slots sharing a commitment scalar but carrying different values do not differ by c * (difference)");
            assert!(z[0] == c.to_scalar() * a + s, "STANDIN cproof.generate_proof_response: response is not c*m + s");
            assert!(p.verify_knowledge_of_opening(&params, c), "STANDIN cproof: honest proof using the public-addition pattern inside one proof rejected, N={}", N);
        }
    }
    #[test] fn standin_cproof_public_addition() { check_public_addition::<2>(); check_public_addition::<5>(); }

    #[test] fn standin_cproof_patterns() { check_patterns::<2>(); check_patterns::<3>(); check_patterns::<5>(); }

    fn challenge_from(c: Scalar) -> Challenge { unsafe { core::mem::transmute::<Scalar, Challenge>(c) } }
    #[test] fn standin_cproof_verify() { check::<1>(); check::<2>(); check::<5>(); }
}
