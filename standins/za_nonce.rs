// BOUNDED STAND-IN (native executable contracts), appended to zkabacus-crypto/src/nonce.rs of a scratch copy.
#[cfg(all(test, feature = "bincode"))]
mod verif_standins {
    use super::*;
    use rand::SeedableRng;
    /// q, little-endian
    const Q_LE: [u8; 32] = [
        0x01, 0x00, 0x00, 0x00, 0xff, 0xff, 0xff, 0xff, 0xfe, 0x5b, 0xfe, 0xff, 0x02, 0xa4, 0xbd, 0x53, 0x05, 0xd8, 0xa1, 0x09, 0x08, 0xd8, 0x39, 0x33, 0x48, 0x7d, 0x9d, 0x29, 0x53, 0xa7, 0xed, 0x73,
    ];
    fn add_le(a: &[u8; 32], b: &[u8; 32]) -> Option<[u8; 32]> {
        let mut out = [0u8; 32];
        let mut carry = 0u16;
        for i in 0..32 { let s = a[i] as u16 + b[i] as u16 + carry; out[i] = s as u8; carry = s >> 8; }
        if carry == 0 { Some(out) } else { None }
    }

    /// C18 / C15: no nonce obtainable by generation or decoding equals the close tag; decoding accepts canonical scalars only
    #[test]
    fn standin_nonce_never_close_tag() {
        let close = crate::CLOSE_SCALAR;
        let mut rng = rand::rngs::StdRng::seed_from_u64(0xc18);
        for _ in 0..200 {
            let n = Nonce::new(&mut rng);
            assert!(n.as_scalar() != close, "STANDIN Nonce::new: produced the close tag");
            let bytes = bincode::serialize(&n).unwrap();
            let back: Nonce = bincode::deserialize(&bytes).expect("STANDIN Nonce decode: an honest nonce does not decode");
            assert!(back.as_scalar() == n.as_scalar(), "STANDIN Nonce decode: round trip changed the nonce");
        }
        // the close tag itself, canonical and non-canonical (+ q, + 2q if it fits), must never decode to a nonce
        let canon = close.to_bytes();
        let mut candidates = vec![("canonical close tag", canon)];
        if let Some(x) = add_le(&canon, &Q_LE) { candidates.push(("close tag + q", x)); if let Some(y) = add_le(&x, &Q_LE) { candidates.push(("close tag + 2q", y)); } }
        for (what, bytes) in candidates {
            match bincode::deserialize::<Nonce>(&bytes) {
                Err(_) => {}
                Ok(n) => panic!("STANDIN Nonce decode: the {} decodes to a nonce (scalar {:?}, close tag {:?})", what, n.as_scalar(), close),
            }
        }
        // other non-canonical encodings are refused too
        let one_plus_q = add_le(&Scalar::one().to_bytes(), &Q_LE).unwrap();
        assert!(bincode::deserialize::<Nonce>(&one_plus_q).is_err(), "STANDIN Nonce decode: the non-canonical encoding 1 + q is accepted");
        assert!(bincode::deserialize::<Nonce>(&[0xffu8; 32]).is_err(), "STANDIN Nonce decode: the all-ones encoding is accepted");
    }
}
