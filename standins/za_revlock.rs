// BOUNDED STAND-IN (native executable contracts), appended to zkabacus-crypto/src/revlock.rs of a scratch copy.
// C05 / C15: a revocation pair exists only when its lock IS the SHA3-256 digest of (secret bytes || index), read as a
// canonical scalar; every secret whose digest is not a canonical scalar (>= q) is refused - in generation and in decoding.
#[cfg(test)]
mod verif_standins {
    use super::*;
    use rand::SeedableRng;
    use sha3::{Digest, Sha3_256};

    fn digest_of(secret: &Scalar, index: u8) -> [u8; 32] {
        let mut h = Sha3_256::new();
        h.update(secret.to_bytes());
        h.update([index]);
        let d = h.finalize();
        let mut out = [0u8; 32];
        out.copy_from_slice(d.as_ref());
        out
    }
    /// q, little-endian
    const Q_LE: [u8; 32] = [
        0x01, 0x00, 0x00, 0x00, 0xff, 0xff, 0xff, 0xff, 0xfe, 0x5b, 0xfe, 0xff, 0x02, 0xa4, 0xbd, 0x53, 0x05, 0xd8, 0xa1, 0x09, 0x08, 0xd8, 0x39, 0x33, 0x48, 0x7d, 0x9d, 0x29, 0x53, 0xa7, 0xed, 0x73,
    ];
    fn below_q(d: &[u8; 32]) -> bool {
        for i in (0..32).rev() { if d[i] != Q_LE[i] { return d[i] < Q_LE[i]; } }
        false
    }

    #[test]
    fn standin_revocation_pair() {
        let mut rng = rand::rngs::StdRng::seed_from_u64(0xc05);
        // generated pairs: the lock's canonical bytes are the digest of the secret
        for _ in 0..300 {
            let p = RevocationPair::new(&mut rng);
            let d = digest_of(&p.secret.secret, p.secret.index);
            assert!(below_q(&d), "STANDIN RevocationPair::new: produced a pair whose digest is not a canonical scalar");
            assert_eq!(p.lock.0.to_bytes(), d, "STANDIN RevocationPair::new: the lock is not the SHA3 digest of its secret");
        }
        // candidate secrets of every kind: digest below q, in [q, 2^255), and with the top bit set
        let (mut seen_ok, mut seen_mid, mut seen_top) = (0, 0, 0);
        for k in 0..400u64 {
            let secret = Scalar::from(k) * Scalar::from(0x9e37_79b9_7f4a_7c15u64) + Scalar::from(k);
            for index in [0u8, 1, 255] {
                let d = digest_of(&secret, index);
                let r = RevocationPair::try_from(UncheckedRevocationSecret { secret, index });
                if below_q(&d) {
                    seen_ok += 1;
                    let p = r.expect("STANDIN RevocationPair::try_from: a secret with a canonical digest was refused");
                    assert_eq!(p.lock.0.to_bytes(), d, "STANDIN RevocationPair::try_from: lock is not the digest of the secret");
                    // the pair form: right lock accepted, any other lock refused
                    assert!(RevocationPair::try_from(UncheckedRevocationPair { lock: p.lock, secret: UncheckedRevocationSecret { secret, index } }).is_ok(), "STANDIN RevocationPair::try_from(pair): matching pair refused");
                    let wrong = RevocationLock(p.lock.0 + Scalar::one());
                    assert!(RevocationPair::try_from(UncheckedRevocationPair { lock: wrong, secret: UncheckedRevocationSecret { secret, index } }).is_err(), "STANDIN RevocationPair::try_from(pair): a lock that is not the hash of the secret was accepted");
                    // locks whose byte differences cancel under a fold (same mask in two bytes) are different locks too
                    let mut lb = p.lock.0.to_bytes(); lb[0] ^= 0x5a; lb[7] ^= 0x5a;
                    if let Some(l2) = Option::<Scalar>::from(Scalar::from_bytes(&lb)) {
                        assert!(RevocationLock(l2) != p.lock, "STANDIN RevocationLock ==: two different locks compare equal");
                        assert!(RevocationPair::try_from(UncheckedRevocationPair { lock: RevocationLock(l2), secret: UncheckedRevocationSecret { secret, index } }).is_err(), "STANDIN RevocationPair::try_from(pair): accepted a lock differing from the hash of the secret in two bytes");
                    }
                    // the decoded pair carries the hash of the secret, whatever lock was supplied
                    let q = RevocationPair::try_from(UncheckedRevocationPair { lock: p.lock, secret: UncheckedRevocationSecret { secret, index } }).unwrap();
                    assert_eq!(q.lock.0.to_bytes(), d, "STANDIN RevocationPair::try_from(pair): the pair's lock is not the hash of its secret");
                } else {
                    if d[31] & 0x80 == 0 { seen_mid += 1; } else { seen_top += 1; }
                    assert!(r.is_err(), "STANDIN RevocationPair::try_from: secret {:?} index {} has the non-canonical digest {:02x?} (>= q) but was accepted: its lock cannot be the hash of its secret", secret, index, d);
                }
            }
        }
        assert!(seen_ok > 100 && seen_mid > 5 && seen_top > 100, "STANDIN revocation pair: candidate set does not cover all three digest classes ({} {} {})", seen_ok, seen_mid, seen_top);
    }
}
