// BOUNDED STAND-IN (native executable contracts), appended to zkabacus-crypto/src/customer.rs of a scratch copy.
// C20: a customer written out and read back at ANY step continues exactly as the one that was never stored:
// same accept/refuse decisions, byte-identical next messages (same randomness), same closing message.
#[cfg(all(test, feature = "bincode"))]
mod verif_standins {
    use super::*;
    use crate::{merchant, proofs::Context, states::{ChannelId, CustomerBalance, CustomerRandomness, MerchantBalance, MerchantRandomness}, PaymentAmount};
    use rand::SeedableRng;
    type R = rand::rngs::StdRng;

    fn store_restore<T: serde::Serialize + serde::de::DeserializeOwned>(t: T, stage: &str) -> T {
        let bytes = bincode::serialize(&t).unwrap();
        let back: T = bincode::deserialize(&bytes).unwrap_or_else(|e| panic!("STANDIN restore: a customer stored at stage {} cannot be read back: {}", stage, e));
        assert_eq!(bincode::serialize(&back).unwrap(), bytes, "STANDIN restore: stage {} re-encodes differently after a round trip", stage);
        back
    }
    fn enc<T: serde::Serialize>(t: &T) -> Vec<u8> { bincode::serialize(t).unwrap() }

    /// one history (establish, one payment incl. a refused merchant reply, close); the customer is stored and restored at `at`
    fn history(m: &merchant::Config, cust: u64, merch: u64, pay: i64, at: Option<usize>, close_at: usize) -> Vec<(String, Vec<u8>)> {
        let mut crng = R::seed_from_u64(0xc20);
        let mut mrng = R::seed_from_u64(0xabc);
        let cfg = m.to_customer_config();
        let mut trace: Vec<(String, Vec<u8>)> = Vec::new();
        let hit = |k: usize| at == Some(k);
        let cid = ChannelId::new(MerchantRandomness::new(&mut mrng), CustomerRandomness::new(&mut crng), m.signing_keypair().public_key(), b"m", b"c");
        let ctx = Context::new(b"standin restore");
        let (cb, mb) = (CustomerBalance::try_new(cust).unwrap(), MerchantBalance::try_new(merch).unwrap());
        let (mut requested, proof) = Requested::new(&mut crng, &cfg, cid, mb, cb, &ctx);
        trace.push(("establish proof".into(), enc(&proof)));
        if hit(0) { requested = store_restore(requested, "Requested"); }
        let (closing, blinded_state) = m.initialize(&mut mrng, &cid, cb, mb, proof, &ctx).expect("STANDIN: honest establish refused");
        let mut inactive = requested.complete(closing, &cfg).ok().expect("STANDIN restore: closing signature refused by the (restored) Requested customer");
        if hit(1) { inactive = store_restore(inactive, "Inactive"); }
        if close_at == 1 { let c = inactive.close(&mut crng); trace.push(("close from Inactive".into(), enc(&c))); return trace; }
        let token = m.activate(&mut mrng, blinded_state);
        let mut ready = inactive.activate(token, &cfg).ok().expect("STANDIN restore: pay token refused by the (restored) Inactive customer");
        if hit(2) { ready = store_restore(ready, "Ready"); }
        if close_at == 2 { let c = ready.close(&mut crng); trace.push(("close from Ready".into(), enc(&c))); return trace; }
        let amount = if pay >= 0 { PaymentAmount::pay_merchant(pay as u64).unwrap() } else { PaymentAmount::pay_customer((-pay) as u64).unwrap() };
        let (mut started, start_msg) = ready.start(&mut crng, amount, &ctx, &cfg).ok().expect("STANDIN restore: payment refused");
        trace.push(("start message".into(), enc(&(&start_msg.nonce, &start_msg.pay_proof))));
        if hit(3) { started = store_restore(started, "Started"); }
        let (unrevoked, closing) = m.allow_payment(&mut mrng, amount, &start_msg.nonce, start_msg.pay_proof, &ctx).expect("STANDIN: honest pay proof refused");
        // a refused reply first (a closing signature for another channel), then the store point "after a refused reply"
        let bogus = { let mut r2 = R::seed_from_u64(77); let m2 = merchant::Config::new(&mut r2); let c2 = m2.to_customer_config();
            let id2 = ChannelId::new(MerchantRandomness::new(&mut r2), CustomerRandomness::new(&mut r2), m2.signing_keypair().public_key(), b"x", b"y");
            let (_, p2) = Requested::new(&mut r2, &c2, id2, mb, cb, &ctx); m2.initialize(&mut r2, &id2, cb, mb, p2, &ctx).unwrap().0 };
        started = match started.lock(bogus, &cfg) { Ok(_) => panic!("STANDIN restore: a closing signature of another merchant was accepted"), Err(s) => s };
        if hit(4) { started = store_restore(started, "Started (after a refused reply)"); }
        trace.push(("balances while started".into(), enc(&(started.customer_balance().into_inner(), started.merchant_balance().into_inner()))));
        if close_at == 3 { let c = started.close(&mut crng); trace.push(("close from Started".into(), enc(&c))); return trace; }
        let (mut locked, lock_msg) = started.lock(closing, &cfg).ok().expect("STANDIN restore: honest closing signature refused by the (restored) Started customer");
        trace.push(("lock message".into(), enc(&(&lock_msg.revocation_pair, &lock_msg.revocation_lock_blinding_factor))));
        if hit(5) { locked = store_restore(locked, "Locked"); }
        if close_at == 4 { let c = locked.close(&mut crng); trace.push(("close from Locked".into(), enc(&c))); return trace; }
        let token = unrevoked.complete_payment(&mut mrng, &lock_msg.revocation_pair, &lock_msg.revocation_lock_blinding_factor).ok().expect("STANDIN: honest revocation refused");
        let mut ready = locked.unlock(token, &cfg).ok().expect("STANDIN restore: honest pay token refused by the (restored) Locked customer");
        if hit(6) { ready = store_restore(ready, "Ready (after a payment)"); }
        let c = ready.close(&mut crng);
        trace.push(("close from Ready after a payment".into(), enc(&c)));
        trace
    }

    /// C03 / C04: from every stage the customer's closing message is accepted by the merchant's close check and carries the
    /// balances of the last state the merchant has a revocation-free claim on (pre-payment balances while a payment is in flight)
    #[test]
    fn standin_close_from_every_stage() {
        let mut rng = R::seed_from_u64(1);
        let m = merchant::Config::new(&mut rng);
        let max = i64::MAX as u64;
        for (cust, merch, pay) in [(100u64, 0u64, 10i64), (43, 27, 30), (max - 5, max, -5), (7, 7, 0)] {
            let after = ((cust as i128 - pay as i128) as u64, (merch as i128 + pay as i128) as u64);
            for close_at in [1usize, 2, 3, 4, 5] {
                let trace = history(&m, cust, merch, pay, None, close_at);
                let (what, bytes) = trace.last().unwrap();
                let msg: ClosingMessage = bincode::deserialize(bytes).unwrap();
                let want = if close_at >= 4 { after } else { (cust, merch) };
                assert_eq!((msg.customer_balance().into_inner(), msg.merchant_balance().into_inner()), want, "STANDIN `{}`: closing message carries the wrong balances (channel {} / {}, payment {})", what, cust, merch, pay);
                let (sig, cs) = msg.into_parts();
                assert!(matches!(m.check_close_signature(sig, &cs), crate::Verification::Verified), "STANDIN `{}`: the merchant's close check refuses the customer's closing message (channel {} / {}, payment {})", what, cust, merch, pay);
            }
        }
    }

    /// C14: a closing message never shows the sigma1 the merchant put into the closing signature it issued (the customer
    /// re-randomises before closing), at every stage
    #[test]
    fn standin_close_rerandomized() {
        let mut rng = R::seed_from_u64(1);
        let m = merchant::Config::new(&mut rng);
        let cfg = m.to_customer_config();
        let mut crng = R::seed_from_u64(0xc14);
        let mut mrng = R::seed_from_u64(0xabd);
        let cid = ChannelId::new(MerchantRandomness::new(&mut mrng), CustomerRandomness::new(&mut crng), m.signing_keypair().public_key(), b"m", b"c");
        let ctx = Context::new(b"standin c14");
        let (cb, mb) = (CustomerBalance::try_new(100).unwrap(), MerchantBalance::try_new(5).unwrap());
        let issued = |sig: &crate::ClosingSignature| enc(sig)[..48].to_vec();
        let shown = |msg: &ClosingMessage| enc(msg.closing_signature())[..48].to_vec();
        let run = |stage: usize, crng: &mut R, mrng: &mut R| -> (Vec<Vec<u8>>, Vec<u8>) {
            let mut seen = Vec::new();
            let (requested, proof) = Requested::new(crng, &cfg, cid, mb, cb, &ctx);
            let (closing, blinded_state) = m.initialize(mrng, &cid, cb, mb, proof, &ctx).unwrap();
            seen.push(issued(&closing));
            let inactive = requested.complete(closing, &cfg).ok().unwrap();
            if stage == 1 { return (seen, shown(&inactive.close(crng))); }
            let ready = inactive.activate(m.activate(mrng, blinded_state), &cfg).ok().unwrap();
            if stage == 2 { return (seen, shown(&ready.close(crng))); }
            let amount = PaymentAmount::pay_merchant(7).unwrap();
            let (started, sm) = ready.start(crng, amount, &ctx, &cfg).ok().unwrap();
            let (unrevoked, closing2) = m.allow_payment(mrng, amount, &sm.nonce, sm.pay_proof, &ctx).unwrap();
            seen.push(issued(&closing2));
            if stage == 3 { return (seen, shown(&started.close(crng))); }
            let (locked, lm) = started.lock(closing2, &cfg).ok().unwrap();
            if stage == 4 { return (seen, shown(&locked.close(crng))); }
            let token = unrevoked.complete_payment(mrng, &lm.revocation_pair, &lm.revocation_lock_blinding_factor).ok().unwrap();
            let ready = locked.unlock(token, &cfg).ok().unwrap();
            (seen, shown(&ready.close(crng)))
        };
        for stage in 1..=5 {
            let (issued_sigma1s, shown_sigma1) = run(stage, &mut crng, &mut mrng);
            assert!(!issued_sigma1s.contains(&shown_sigma1), "STANDIN close (stage {}): the closing message shows a sigma1 that the merchant issued earlier - the close is linkable to that session", stage);
        }
    }

    #[test]
    fn standin_restore_continues() {
        let mut rng = R::seed_from_u64(1);
        let m = merchant::Config::new(&mut rng);
        let max = i64::MAX as u64;
        for (cust, merch, pay) in [(100u64, 0u64, 10i64), (max - 5, max, -5), (max, max, 0)] {
            for close_at in [1usize, 2, 3, 4, 5] {
                let reference = history(&m, cust, merch, pay, None, close_at);
                for at in 0..7 {
                    let got = history(&m, cust, merch, pay, Some(at), close_at);
                    assert_eq!(got.len(), reference.len(), "STANDIN restore: history diverges after restoring at step {} (balances {} / {}, amount {})", at, cust, merch, pay);
                    for (a, b) in got.iter().zip(reference.iter()) {
                        assert!(a == b, "STANDIN restore: `{}` differs between the customer restored at step {} and the one never stored (balances {} / {}, amount {}, close at {})", b.0, at, cust, merch, pay, close_at);
                    }
                }
            }
        }
    }
}
