// appended to zkchannels-crypto/src/proofs/commitment.rs (test-only accessors for the stand-ins of sibling modules)
#[cfg(test)]
pub(crate) mod standin_access_impl {
    use super::*;
    pub fn bf_response<G: Group<Scalar = Scalar>, const N: usize>(cp: &CommitmentProof<G, N>) -> Scalar { cp.blinding_factor_response_scalar }
    pub fn scalar_commitment<G: Group<Scalar = Scalar>, const N: usize>(cp: &CommitmentProof<G, N>) -> G { cp.scalar_commitment.to_element() }
}
