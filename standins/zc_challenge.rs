// BOUNDED STAND-IN (native executable contracts), appended to zkchannels-crypto/src/proofs/challenge.rs of a scratch copy.
#[cfg(test)]
mod verif_standins {
    use super::*;
    use sha3::{Digest, Sha3_256};

    fn reference(chunks: &[&[u8]]) -> Scalar {
        let mut h = Sha3_256::new();
        for c in chunks { h.update(c); }
        let d = h.finalize();
        let mut wide = [0u8; 64];
        wide[..32].copy_from_slice(d.as_ref());
        Scalar::from_bytes_wide(&wide)
    }

    /// the challenge is the little-endian integer of the WHOLE SHA3-256 digest of the concatenated inputs, reduced mod q;
    /// every byte of every input and the order of inputs matter
    #[test]
    fn standin_challenge_finish() {
        let inputs: Vec<Vec<u8>> = vec![vec![], vec![0], vec![1, 2, 3], (0..=255u8).collect(), vec![0xff; 1000]];
        for a in &inputs {
            for b in &inputs {
                let c = ChallengeBuilder::new().with_bytes(a).with_bytes(b).finish().to_scalar();
                assert_eq!(c, reference(&[&a[..], &b[..]]), "STANDIN ChallengeBuilder::finish: not the SHA3-256 digest of the inputs as a little-endian integer mod q (inputs of {} and {} bytes)", a.len(), b.len());
                if !a.is_empty() {
                    let mut a2 = a.clone();
                    let k = a2.len() - 1;
                    a2[k] ^= 0x80;
                    assert_ne!(c, ChallengeBuilder::new().with_bytes(&a2).with_bytes(b).finish().to_scalar(), "STANDIN challenge: last byte of an input of {} bytes does not matter", a.len());
                }
            }
        }
        let s = Scalar::from(7u64);
        let g = G1Projective::generator() * Scalar::from(11u64);
        let c = ChallengeBuilder::new().with(&s).with(&g).finish().to_scalar();
        assert_eq!(c, reference(&[&s.to_bytes()[..], &G1Affine::from(g).to_bytes().as_ref()[..]]), "STANDIN challenge: scalar / G1 inputs are not hashed as their canonical bytes");
        assert_ne!(c, ChallengeBuilder::new().with(&g).with(&s).finish().to_scalar(), "STANDIN challenge: order of inputs does not matter");
    }
}
