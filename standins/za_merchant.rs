// BOUNDED STAND-IN (native executable contracts), appended to zkabacus-crypto/src/merchant.rs of a scratch copy.
#[cfg(test)]
mod verif_standins {
    use super::*;
    use crate::customer::Requested;
    use crate::proofs::Context;
    use rand::SeedableRng;
    fn rng() -> rand::rngs::StdRng { rand::rngs::StdRng::seed_from_u64(0x5eed) }

    fn establish(rng: &mut (impl Rng), m: &Config, cust: u64, merch: u64) -> crate::customer::Ready {
        let cfg = m.to_customer_config();
        let cid = ChannelId::new(MerchantRandomness::new(rng), CustomerRandomness::new(rng), m.signing_keypair().public_key(), &[], &[]);
        let ctx = Context::new(b"standin");
        let (cb, mb) = (CustomerBalance::try_new(cust).unwrap(), MerchantBalance::try_new(merch).unwrap());
        let (req, proof) = Requested::new(rng, &cfg, cid, mb, cb, &ctx);
        let (closing, blinded_state) = m.initialize(rng, &cid, cb, mb, proof, &ctx).expect("STANDIN merchant.initialize: honest establish request refused");
        let inactive = req.complete(closing, &cfg).ok().expect("STANDIN customer.complete: honest closing signature refused");
        let token = m.activate(rng, blinded_state);
        inactive.activate(token, &cfg).ok().expect("STANDIN customer.activate: honest pay token refused")
    }

    /// honest establish / pay / close at boundary balances; completion only against the right revocation pair;
    /// a refused completion leaves the pending payment usable
    #[test]
    fn standin_merchant_flow() {
        let mut rng = rng();
        let m = Config::new(&mut rng);
        let cfg = m.to_customer_config();
        let max = i64::MAX as u64;
        for (cust, merch, pay) in [(100u64, 0u64, 10i64), (max, max - 1, 1), (10, max - 10, 10), (max, 0, -0), (5, max, -5)] {
            let ready = establish(&mut rng, &m, cust, merch);
            // close check accepts the customer's closing message at this stage
            let amount = if pay >= 0 { PaymentAmount::pay_merchant(pay as u64).unwrap() } else { PaymentAmount::pay_customer((-pay) as u64).unwrap() };
            let ctx = Context::new(b"standin pay");
            let (started, start_msg) = match ready.start(&mut rng, amount, &ctx, &cfg) { Ok(x) => x, Err((_, e)) => panic!("STANDIN customer.start: in-range payment refused: {:?}", e) };
            let (unrevoked, closing) = m.allow_payment(&mut rng, amount, &start_msg.nonce, start_msg.pay_proof, &ctx).expect("STANDIN merchant.allow_payment: honest pay proof refused");
            let (locked, lock_msg) = started.lock(closing, &cfg).ok().expect("STANDIN customer.lock: honest closing signature refused");
            // a wrong pair (from another state) must be refused, twice, and the right pair must still complete the payment
            let other = crate::revlock::RevocationPair::new(&mut rng);
            let unrevoked = match unrevoked.complete_payment(&mut rng, &other, &lock_msg.revocation_lock_blinding_factor) { Ok(_) => panic!("STANDIN merchant.complete_payment: unrelated revocation pair accepted"), Err(u) => u };
            let unrevoked = match unrevoked.complete_payment(&mut rng, &other, &lock_msg.revocation_lock_blinding_factor) { Ok(_) => panic!("STANDIN merchant.complete_payment: unrelated revocation pair accepted on retry"), Err(u) => u };
            let token = unrevoked.complete_payment(&mut rng, &lock_msg.revocation_pair, &lock_msg.revocation_lock_blinding_factor).ok().expect("STANDIN merchant.complete_payment: the right pair no longer completes the payment after a refusal");
            let ready = locked.unlock(token, &cfg).ok().expect("STANDIN customer.unlock: honest pay token refused");
            let closing_message = ready.close(&mut rng);
            let (sig, cs) = closing_message.into_parts();
            assert!(matches!(m.check_close_signature(sig, &cs), crate::Verification::Verified), "STANDIN merchant.check_close_signature: valid closing message refused (customer {}, merchant {})", cs.customer_balance().into_inner(), cs.merchant_balance().into_inner());
        }
    }
}
