// BOUNDED STAND-IN (native executable contracts), appended to zkchannels-crypto/src/pointcheval_sanders.rs of a scratch copy.
// Used when the Verus lane cannot decide a function of this file (construct outside the verifier's reach), and in the
// thorough tier.  Inputs: an edge lattice ({0, 1, 2, 5, q-1, q-2, q-255, 2^63-1, 2^63, 2^63+5, 2^64-1, 2^64, 2^128, two values with high bytes
// set, random} per slot, zeros in every position) x N in {1,2,3,5}.
#[cfg(test)]
mod verif_standins {
    use super::*;
    use crate::proofs::{ChallengeBuilder, ChallengeInput};
    use bls12_381::pairing;
    use rand::SeedableRng;

    fn rng() -> rand::rngs::StdRng { rand::rngs::StdRng::seed_from_u64(0x5eed) }
    fn lattice(rng: &mut impl Rng) -> Vec<Scalar> {
        let two63 = Scalar::from(1u64 << 63);
        vec![
            Scalar::zero(), Scalar::one(), Scalar::from(2), Scalar::from(5), -Scalar::one(), -Scalar::from(2), -Scalar::from(255),
            Scalar::from((1u64 << 63) - 1), two63, two63 + Scalar::from(5), Scalar::from(u64::MAX), Scalar::from(u64::MAX) + Scalar::one(),
            Scalar::from_raw([0, 0, 1, 0]), Scalar::from_raw([1000, 0, 0, 0x2a << 56]), Scalar::from_raw([5, 0, 0, 3 << 56]), Scalar::random(rng),
        ]
    }

    /// reference: sigma1 != 1  and  e(sigma1, X~ + sum Y~_i m_i) == e(sigma2, g~)
    fn reference_verify<const N: usize>(pk: &PublicKey<N>, m: &[Scalar; N], s: &Signature) -> bool {
        if bool::from(s.sigma1.is_identity()) { return false; }
        let mut base = G2Projective::from(pk.x2);
        for i in 0..N { base += G2Projective::from(pk.y2s[i]) * m[i]; }
        pairing(&s.sigma1, &base.to_affine()) == pairing(&s.sigma2, &pk.g2)
    }

    fn messages<const N: usize>(rng: &mut impl Rng) -> Vec<[Scalar; N]> {
        let lat = lattice(rng);
        let mut out = Vec::new();
        // every slot takes every lattice value while the others are random / zero
        for pos in 0..N { for v in &lat { for fill in [Scalar::zero(), Scalar::from(7)] {
            let mut m = [fill; N]; m[pos] = *v; out.push(m);
        } } }
        out
    }

    fn check_verify<const N: usize>() {
        let mut rng = rng();
        let kp = KeyPair::<N>::new(&mut rng);
        let pk = kp.public_key();
        let msgs = messages::<N>(&mut rng);
        for m in &msgs {
            let msg = Message::new(*m);
            let sig = Signature::new(&mut rng, &kp, &msg);
            assert!(sig.verify(pk, &msg), "STANDIN ps.Signature::verify: honest signature rejected, N={} m={:?}", N, m);
            // every message that differs from the signed one in at most one slot (keeps the run time linear in the lattice)
            for other in msgs.iter().filter(|o| (0..N).filter(|&i| o[i] != m[i]).count() <= 1) {
                let got = sig.verify(pk, &Message::new(*other));
                let want = reference_verify(pk, other, &sig);
                assert_eq!(got, want, "STANDIN ps.Signature::verify: disagrees with the PS relation, N={} signed={:?} checked={:?}", N, m, other);
            }
            // degenerate signatures
            let ident = Signature { sigma1: G1Affine::identity(), sigma2: G1Affine::identity() };
            assert!(!ident.verify(pk, &msg), "STANDIN ps.Signature::verify: all-identity signature accepted, N={}", N);
            let half = Signature { sigma1: G1Affine::identity(), sigma2: sig.sigma2 };
            assert_eq!(half.verify(pk, &msg), reference_verify(pk, m, &half));
        }
    }
    #[test] fn standin_ps_signature_verify() { check_verify::<1>(); check_verify::<2>(); check_verify::<3>(); check_verify::<5>(); }

    /// every element of a public key is bound by the challenge derived from it
    #[test]
    fn standin_ps_publickey_consume() {
        let mut rng = rng();
        let pk = KeyPair::<3>::new(&mut rng).public_key().clone();
        let base = ChallengeBuilder::new().with(&pk).finish().to_scalar();
        let other1 = G1Affine::from(G1Projective::random(&mut rng));
        let other2 = G2Affine::from(G2Projective::random(&mut rng));
        let mut variants: Vec<(&str, PublicKey<3>)> = Vec::new();
        let mut v = pk.clone(); v.g1 = other1; variants.push(("g1", v));
        let mut v = pk.clone(); v.g2 = other2; variants.push(("g2", v));
        let mut v = pk.clone(); v.x2 = other2; variants.push(("x2", v));
        for i in 0..3 {
            let mut v = pk.clone(); v.y1s[i] = other1; variants.push(("y1s", v));
            let mut v = pk.clone(); v.y2s[i] = other2; variants.push(("y2s", v));
        }
        for (what, v) in variants {
            let c = ChallengeBuilder::new().with(&v).finish().to_scalar();
            assert!(c != base, "STANDIN ps.PublicKey::consume: changing {} of the key does not change the challenge", what);
        }
    }
}

// key generation: well-formed for ordinary randomness and for streams with all-zero windows at every scalar-draw offset
#[cfg(test)]
mod verif_standins_keygen {
    use super::*;
    use bls12_381::pairing;
    use rand::{RngCore, SeedableRng};

    /// uniformly random, except that the 64-byte fills number `start .. start+width` are all zero
    struct ZeroWindow { inner: rand::rngs::StdRng, fills: usize, start: usize, width: usize }
    impl RngCore for ZeroWindow {
        fn next_u32(&mut self) -> u32 { self.inner.next_u32() }
        fn next_u64(&mut self) -> u64 { self.inner.next_u64() }
        fn fill_bytes(&mut self, dest: &mut [u8]) {
            self.inner.fill_bytes(dest);
            if dest.len() == 64 {
                if self.fills >= self.start && self.fills < self.start + self.width { for b in dest.iter_mut() { *b = 0; } }
                self.fills += 1;
            }
        }
        fn try_fill_bytes(&mut self, dest: &mut [u8]) -> Result<(), rand::Error> { self.fill_bytes(dest); Ok(()) }
    }
    impl rand::CryptoRng for ZeroWindow {}

    fn check_key<const N: usize>(kp: &KeyPair<N>, what: &str) {
        let (sk, pk) = (&kp.sk, &kp.pk);
        assert!(!bool::from(sk.x.is_zero()), "STANDIN keygen: secret x is zero ({})", what);
        for i in 0..N {
            assert!(!bool::from(sk.ys[i].is_zero()), "STANDIN keygen: secret y_{} is zero ({})", i, what);
            assert!(sk.ys[i] != sk.x, "STANDIN keygen: y_{} equals x ({})", i, what);
            for j in 0..i { assert!(sk.ys[i] != sk.ys[j], "STANDIN keygen: y_{} equals y_{} - the secret scalars are not independent draws ({})", i, j, what); }
        }
        assert!(!bool::from(pk.g1.is_identity()) && !bool::from(pk.g2.is_identity()) && !bool::from(pk.x2.is_identity()), "STANDIN keygen: identity generator or X~ ({})", what);
        assert!(pairing(&sk.x1, &pk.g2) == pairing(&pk.g1, &pk.x2), "STANDIN keygen: X and X~ do not share their discrete logarithm ({})", what);
        for i in 0..N {
            assert!(!bool::from(pk.y1s[i].is_identity()) && !bool::from(pk.y2s[i].is_identity()), "STANDIN keygen: identity Y_{} ({})", i, what);
            assert!(pairing(&pk.y1s[i], &pk.g2) == pairing(&pk.g1, &pk.y2s[i]), "STANDIN keygen: Y_{} and Y~_{} do not share their discrete logarithm ({})", i, i, what);
            assert!(G1Projective::from(pk.y1s[i]) == G1Projective::from(pk.g1) * sk.ys[i], "STANDIN keygen: Y_{} is not g1^y_{} ({})", i, i, what);
        }
        // a signature made with the key verifies, and not on another message
        let mut rng = rand::rngs::StdRng::seed_from_u64(9);
        let m = Message::new([Scalar::from(3); N]);
        let sig = Signature::new(&mut rng, kp, &m);
        assert!(sig.verify(pk, &m), "STANDIN keygen: a signature made with the generated key does not verify ({})", what);
        let mut other = [Scalar::from(3); N]; other[N - 1] = Scalar::from(4);
        assert!(!sig.verify(pk, &Message::new(other)), "STANDIN keygen: signature verifies on another message ({})", what);
        if N >= 2 {
            // same slot sum, permuted: must not verify (fails when the y_i are equal)
            let mut a = [Scalar::from(3); N]; a[0] = Scalar::from(1); a[1] = Scalar::from(5);
            let sig2 = Signature::new(&mut rng, kp, &Message::new(a));
            let mut b = a; b[0] = Scalar::from(5); b[1] = Scalar::from(1);
            assert!(!sig2.verify(pk, &Message::new(b)), "STANDIN keygen: signature verifies on a permuted tuple ({})", what);
        }
    }

    fn sweep<const N: usize>() {
        let mut rng = rand::rngs::StdRng::seed_from_u64(0x19);
        check_key(&KeyPair::<N>::new(&mut rng), "ordinary randomness");
        for width in 1..=3usize {
            for start in 0..(2 * N + 6) {
                let mut zr = ZeroWindow { inner: rand::rngs::StdRng::seed_from_u64(7 + start as u64), fills: 0, start, width };
                let kp = KeyPair::<N>::new(&mut zr);
                check_key(&kp, &format!("N = {}, zero window at 64-byte draw #{} width {}", N, start, width));
            }
        }
    }
    #[test] fn standin_keygen() { sweep::<1>(); sweep::<2>(); sweep::<5>(); }
}

// decode-time validation of keys: an identity atom anywhere in a public key is refused
#[cfg(all(test, feature = "bincode"))]
mod verif_standins_decode {
    use super::*;
    use rand::SeedableRng;
    fn check<const N: usize>() {
        let mut rng = rand::rngs::StdRng::seed_from_u64(0xc15);
        let kp = KeyPair::<N>::new(&mut rng);
        let bytes = bincode::serialize(kp.public_key()).unwrap();
        let back: PublicKey<N> = bincode::deserialize(&bytes).expect("STANDIN PublicKey decode: honest key refused");
        assert!(&back == kp.public_key(), "STANDIN PublicKey decode: round trip changed the key");
        assert_eq!(bytes.len(), 48 + 8 + 48 * N + 96 + 96 + 8 + 96 * N, "STANDIN PublicKey encoding: unexpected layout (the stand-in assumes g1, [len] y1s, g2, x2, [len] y2s)");
        // atom offsets: g1 | len | y1s[0..N] | g2 | x2 | len | y2s[0..N]
        let mut atoms: Vec<(String, usize, usize)> = vec![("g1".into(), 0, 48)];
        for i in 0..N { atoms.push((format!("Y_{}", i), 56 + 48 * i, 48)); }
        let o = 56 + 48 * N;
        atoms.push(("g2".into(), o, 96)); atoms.push(("X~".into(), o + 96, 96));
        for i in 0..N { atoms.push((format!("Y~_{}", i), o + 200 + 96 * i, 96)); }
        for (name, off, len) in atoms {
            let mut b = bytes.clone();
            for k in 0..len { b[off + k] = 0; }
            b[off] = 0xc0; // compressed encoding of the identity
            assert!(bincode::deserialize::<PublicKey<N>>(&b).is_err(), "STANDIN PublicKey decode: a key whose {} is the identity was accepted (N = {})", name, N);
        }
        let sk_bytes = bincode::serialize(&kp).unwrap();
        let back: KeyPair<N> = bincode::deserialize(&sk_bytes).expect("STANDIN KeyPair decode: honest key pair refused");
        assert!(back == kp, "STANDIN KeyPair decode: round trip changed the key pair");
        // key pair layout: x 32 | len 8 | ys 32N | x1 48 | public key (as above)
        assert_eq!(sk_bytes.len(), 32 + 8 + 32 * N + 48 + bytes.len(), "STANDIN KeyPair encoding: unexpected layout");
        let pk_off = 32 + 8 + 32 * N + 48;
        // a zero secret scalar is refused, also when the matching public elements are made consistent (identity)
        for i in 0..N {
            let mut b = sk_bytes.clone();
            for k in 0..32 { b[40 + 32 * i + k] = 0; }
            assert!(bincode::deserialize::<KeyPair<N>>(&b).is_err(), "STANDIN KeyPair decode: zero secret scalar y_{} accepted (N = {})", i, N);
            let y1 = pk_off + 56 + 48 * i;
            for k in 0..48 { b[y1 + k] = 0; } b[y1] = 0xc0;
            let y2 = pk_off + 56 + 48 * N + 192 + 8 + 96 * i;
            for k in 0..96 { b[y2 + k] = 0; } b[y2] = 0xc0;
            assert!(bincode::deserialize::<KeyPair<N>>(&b).is_err(), "STANDIN KeyPair decode: y_{} = 0 with Y_{} = Y~_{} = identity accepted (N = {})", i, i, i, N);
        }
        let mut b = sk_bytes.clone();
        for k in 0..32 { b[k] = 0; }
        assert!(bincode::deserialize::<KeyPair<N>>(&b).is_err(), "STANDIN KeyPair decode: zero secret scalar x accepted (N = {})", N);
    }
    #[test] fn standin_key_decode_validation() { check::<1>(); check::<3>(); check::<5>(); }
}

// the byte string of a public key (hashed into the channel id): every element, in order
#[cfg(test)]
mod verif_standins_bytes {
    use super::*;
    use rand::SeedableRng;
    fn check<const N: usize>() {
        let mut rng = rand::rngs::StdRng::seed_from_u64(0xc18);
        let kp = KeyPair::<N>::new(&mut rng);
        let pk = kp.public_key();
        let mut want: Vec<u8> = Vec::new();
        want.extend_from_slice(pk.g1.to_compressed().as_ref());
        for y in pk.y1s.iter() { want.extend_from_slice(y.to_compressed().as_ref()); }
        want.extend_from_slice(pk.g2.to_compressed().as_ref());
        want.extend_from_slice(pk.x2.to_compressed().as_ref());
        for y in pk.y2s.iter() { want.extend_from_slice(y.to_compressed().as_ref()); }
        assert_eq!(pk.to_bytes(), want, "STANDIN PublicKey::to_bytes: not the concatenation of g1, Y_1..Y_N, g~, X~, Y~_1..Y~_N (N = {})", N);
        // a key that differs in a single element has different bytes
        let other = KeyPair::<N>::new(&mut rng);
        for i in 0..N {
            let mut k = pk.clone(); k.y2s[i] = other.public_key().y2s[i];
            assert!(k.to_bytes() != pk.to_bytes(), "STANDIN PublicKey::to_bytes: Y~_{} does not enter the byte string (N = {})", i, N);
            let mut k = pk.clone(); k.y1s[i] = other.public_key().y1s[i];
            assert!(k.to_bytes() != pk.to_bytes(), "STANDIN PublicKey::to_bytes: Y_{} does not enter the byte string (N = {})", i, N);
        }
        let mut k = pk.clone(); k.x2 = other.public_key().x2;
        assert!(k.to_bytes() != pk.to_bytes(), "STANDIN PublicKey::to_bytes: X~ does not enter the byte string");
    }
    #[test] fn standin_public_key_bytes() { check::<1>(); check::<5>(); }
}

// test-only constructor for the stand-ins of sibling modules
#[cfg(test)]
pub(crate) mod standin_access_impl {
    use super::*;
    pub fn with_sigma2(sig: &Signature, sigma2: G1Affine) -> Signature { Signature { sigma1: sig.sigma1, sigma2 } }
    pub fn blinded_with_sigma2(b: &BlindedSignature, sigma2: G1Affine) -> BlindedSignature { BlindedSignature(Signature { sigma1: b.0.sigma1, sigma2 }) }
}
