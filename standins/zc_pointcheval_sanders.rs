// BOUNDED STAND-IN (native executable contracts), appended to zkchannels-crypto/src/pointcheval_sanders.rs of a scratch copy.
// Used when the Verus lane cannot decide a function of this file (construct outside the verifier's reach), and in the
// thorough tier.  Inputs: an edge lattice ({0, 1, 2, 5, q-1, q-2, q-255, 2^63-1, 2^63, 2^63+5, 2^64-1, 2^64, 2^128, two values with high bytes
// set, random} per slot, zeros in every position) x N in {1,2,3,5}.
#[cfg(test)]
mod verif_standins {
    use super::*;
    use crate::proofs::{ChallengeBuilder, ChallengeInput};
    use bls12_381::pairing;
    use rand::SeedableRng;

    fn rng() -> rand::rngs::StdRng { rand::rngs::StdRng::seed_from_u64(0x5eed) }
    fn lattice(rng: &mut impl Rng) -> Vec<Scalar> {
        let two63 = Scalar::from(1u64 << 63);
        vec![
            Scalar::zero(), Scalar::one(), Scalar::from(2), Scalar::from(5), -Scalar::one(), -Scalar::from(2), -Scalar::from(255),
            Scalar::from((1u64 << 63) - 1), two63, two63 + Scalar::from(5), Scalar::from(u64::MAX), Scalar::from(u64::MAX) + Scalar::one(),
            Scalar::from_raw([0, 0, 1, 0]), Scalar::from_raw([1000, 0, 0, 0x2a << 56]), Scalar::from_raw([5, 0, 0, 3 << 56]), Scalar::random(rng),
        ]
    }

    /// reference: sigma1 != 1  and  e(sigma1, X~ + sum Y~_i m_i) == e(sigma2, g~)
    fn reference_verify<const N: usize>(pk: &PublicKey<N>, m: &[Scalar; N], s: &Signature) -> bool {
        if bool::from(s.sigma1.is_identity()) { return false; }
        let mut base = G2Projective::from(pk.x2);
        for i in 0..N { base += G2Projective::from(pk.y2s[i]) * m[i]; }
        pairing(&s.sigma1, &base.to_affine()) == pairing(&s.sigma2, &pk.g2)
    }

    fn messages<const N: usize>(rng: &mut impl Rng) -> Vec<[Scalar; N]> {
        let lat = lattice(rng);
        let mut out = Vec::new();
        // every slot takes every lattice value while the others are random / zero
        for pos in 0..N { for v in &lat { for fill in [Scalar::zero(), Scalar::from(7)] {
            let mut m = [fill; N]; m[pos] = *v; out.push(m);
        } } }
        out
    }

    fn check_verify<const N: usize>() {
        let mut rng = rng();
        let kp = KeyPair::<N>::new(&mut rng);
        let pk = kp.public_key();
        let msgs = messages::<N>(&mut rng);
        for m in &msgs {
            let msg = Message::new(*m);
            let sig = Signature::new(&mut rng, &kp, &msg);
            assert!(sig.verify(pk, &msg), "STANDIN ps.Signature::verify: honest signature rejected, N={} m={:?}", N, m);
            // every message that differs from the signed one in at most one slot (keeps the run time linear in the lattice)
            for other in msgs.iter().filter(|o| (0..N).filter(|&i| o[i] != m[i]).count() <= 1) {
                let got = sig.verify(pk, &Message::new(*other));
                let want = reference_verify(pk, other, &sig);
                assert_eq!(got, want, "STANDIN ps.Signature::verify: disagrees with the PS relation, N={} signed={:?} checked={:?}", N, m, other);
            }
            // degenerate signatures
            let ident = Signature { sigma1: G1Affine::identity(), sigma2: G1Affine::identity() };
            assert!(!ident.verify(pk, &msg), "STANDIN ps.Signature::verify: all-identity signature accepted, N={}", N);
            let half = Signature { sigma1: G1Affine::identity(), sigma2: sig.sigma2 };
            assert_eq!(half.verify(pk, &msg), reference_verify(pk, m, &half));
        }
    }
    #[test] fn standin_ps_signature_verify() { check_verify::<1>(); check_verify::<2>(); check_verify::<3>(); check_verify::<5>(); }

    /// every element of a public key is bound by the challenge derived from it
    #[test]
    fn standin_ps_publickey_consume() {
        let mut rng = rng();
        let pk = KeyPair::<3>::new(&mut rng).public_key().clone();
        let base = ChallengeBuilder::new().with(&pk).finish().to_scalar();
        let other1 = G1Affine::from(G1Projective::random(&mut rng));
        let other2 = G2Affine::from(G2Projective::random(&mut rng));
        let mut variants: Vec<(&str, PublicKey<3>)> = Vec::new();
        let mut v = pk.clone(); v.g1 = other1; variants.push(("g1", v));
        let mut v = pk.clone(); v.g2 = other2; variants.push(("g2", v));
        let mut v = pk.clone(); v.x2 = other2; variants.push(("x2", v));
        for i in 0..3 {
            let mut v = pk.clone(); v.y1s[i] = other1; variants.push(("y1s", v));
            let mut v = pk.clone(); v.y2s[i] = other2; variants.push(("y2s", v));
        }
        for (what, v) in variants {
            let c = ChallengeBuilder::new().with(&v).finish().to_scalar();
            assert!(c != base, "STANDIN ps.PublicKey::consume: changing {} of the key does not change the challenge", what);
        }
    }
}

// test-only constructor for the stand-ins of sibling modules
#[cfg(test)]
pub(crate) mod standin_access_impl {
    use super::*;
    pub fn with_sigma2(sig: &Signature, sigma2: G1Affine) -> Signature { Signature { sigma1: sig.sigma1, sigma2 } }
}
