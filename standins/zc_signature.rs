// BOUNDED STAND-IN (native executable contracts), appended to zkchannels-crypto/src/proofs/signature.rs of a scratch copy.
#[cfg(test)]
mod verif_standins {
    use super::*;
    use crate::pointcheval_sanders::KeyPair;
    use bls12_381::pairing;
    use rand::SeedableRng;
    fn rng() -> rand::rngs::StdRng { rand::rngs::StdRng::seed_from_u64(0x5eed) }
    fn challenge_from(c: Scalar) -> Challenge { unsafe { core::mem::transmute::<Scalar, Challenge>(c) } }

    /// reference: sigma1' != 1, com_{g~,Y~}(z; z_r) == T + c*C, e(sigma1', X~ + C) == e(sigma2', g~)
    fn reference<const N: usize>(p: &SignatureProof<N>, pk: &PublicKey<N>, c: Scalar) -> bool {
        let s1 = p.blinded_signature.sigma1();
        let s2 = p.blinded_signature.sigma2();
        if bool::from(s1.is_identity()) { return false; }
        let cp = &p.commitment_proof;
        let z = cp.conjunction_response_scalars();
        let mut lhs = G2Projective::from(pk.g2()) * bf_response(cp);
        for i in 0..N { lhs += G2Projective::from(pk.y2s()[i]) * z[i]; }
        let schnorr = lhs == scalar_commitment(cp) + cp.commitment().to_element() * c;
        let link = pairing(&s1, &(G2Projective::from(pk.x2()) + cp.commitment().to_element()).to_affine()) == pairing(&s2, &pk.g2());
        schnorr && link
    }
    // the two private fields of CommitmentProof, read through its serde form-independent layout: same crate, so use a transmute-free path
    fn bf_response<const N: usize>(cp: &CommitmentProof<G2Projective, N>) -> Scalar { super::super::commitment::standin_access_impl::bf_response(cp) }
    fn scalar_commitment<const N: usize>(cp: &CommitmentProof<G2Projective, N>) -> G2Projective { super::super::commitment::standin_access_impl::scalar_commitment(cp) }

    fn check<const N: usize>() {
        let mut rng = rng();
        let kp = KeyPair::<N>::new(&mut rng);
        let pk = kp.public_key();
        for m in [[Scalar::zero(); N], [Scalar::from(3); N], [-Scalar::one(); N]] {
            let msg = Message::new(m);
            let sig = msg.sign(&mut rng, &kp);
            let b = SignatureProofBuilder::generate_proof_commitments(&mut rng, msg.clone(), sig, &[None; N], pk);
            let c = ChallengeBuilder::new().with(&b).finish();
            let p = b.generate_proof_response(c);
            assert!(ChallengeBuilder::new().with(&p).finish().to_scalar() == c.to_scalar(), "STANDIN sproof: builder and proof challenges differ");
            assert!(p.verify_knowledge_of_signature(pk, c), "STANDIN sproof.verify_knowledge_of_signature: honest proof rejected");
            assert_eq!(p.verify_knowledge_of_signature(pk, challenge_from(-c.to_scalar())), reference(&p, pk, -c.to_scalar()), "STANDIN sproof.verify: wrong challenge");
            // a proof around the all-identity signature must be refused
            let mut zero_rng = ZeroRng;
            let b0 = SignatureProofBuilder::generate_proof_commitments(&mut zero_rng, msg.clone(), sig, &[None; N], pk);
            let c0 = ChallengeBuilder::new().with(&b0).finish();
            let p0 = b0.generate_proof_response(c0);
            assert_eq!(p0.verify_knowledge_of_signature(pk, c0), reference(&p0, pk, c0.to_scalar()), "STANDIN sproof.verify_knowledge_of_signature: identity blinded signature");
            assert!(!p0.verify_knowledge_of_signature(pk, c0), "STANDIN sproof.verify_knowledge_of_signature: proof around the all-identity signature accepted");
            // the blinded signature is bound by the challenge
            let mut p2 = p.clone();
            p2.blinded_signature.randomize(&mut rng);
            assert!(ChallengeBuilder::new().with(&p2).finish().to_scalar() != c.to_scalar(), "STANDIN sproof.consume: blinded signature not hashed into the challenge");
        }
    }
    /// an RNG that yields only zero bytes (re-randomiser 0)
    struct ZeroRng;
    impl rand::RngCore for ZeroRng {
        fn next_u32(&mut self) -> u32 { 0 }
        fn next_u64(&mut self) -> u64 { 0 }
        fn fill_bytes(&mut self, dest: &mut [u8]) { for b in dest.iter_mut() { *b = 0; } }
        fn try_fill_bytes(&mut self, dest: &mut [u8]) -> Result<(), rand::Error> { self.fill_bytes(dest); Ok(()) }
    }
    impl rand::CryptoRng for ZeroRng {}
    /// the documented patterns inside ONE signature proof: equal slots and publicly shifted slots share a commitment scalar;
    /// the prover builds the proof (no refusal, no panic) and the verifier accepts it
    fn check_patterns<const N: usize>() {
        let mut rng = rng();
        let kp = KeyPair::<N>::new(&mut rng);
        let pk = kp.public_key();
        for (a, d) in [(Scalar::from(7), Scalar::zero()), (Scalar::zero(), Scalar::zero()), (-Scalar::one(), Scalar::zero()), (Scalar::from(9), Scalar::from(4))] {
            let mut m = [Scalar::from(3); N];
            m[0] = a; m[N - 1] = a + d;
            let msg = Message::new(m);
            let sig = msg.sign(&mut rng, &kp);
            let s = Scalar::from(17);
            let mut given = [None; N];
            given[0] = Some(s); given[N - 1] = Some(s);
            let b = SignatureProofBuilder::generate_proof_commitments(&mut rng, msg.clone(), sig, &given, pk);
            let c = ChallengeBuilder::new().with(&b).finish();
            let p = b.generate_proof_response(c);
            let z = p.conjunction_response_scalars();
            assert!(z[N - 1] == z[0] + c.to_scalar() * d, "STANDIN sproof: slots sharing a commitment scalar do not differ by c * (difference of the values)");
            assert!(p.verify_knowledge_of_signature(pk, c), "STANDIN sproof.verify_knowledge_of_signature: honest proof using the equality / public-addition pattern inside one proof rejected, N={}", N);
        }
    }
    #[test] fn standin_sproof_patterns() { check_patterns::<2>(); check_patterns::<5>(); }

    #[test] fn standin_sproof_verify() { check::<1>(); check::<2>(); check::<5>(); }
}

// test-only accessors for the stand-ins of sibling modules
#[cfg(test)]
pub(crate) mod standin_access_impl {
    use super::*;
    pub fn sigma2<const N: usize>(p: &SignatureProof<N>) -> G1Affine { p.blinded_signature.sigma2() }
    pub fn set_sigma2<const N: usize>(p: &mut SignatureProof<N>, s2: G1Affine) {
        p.blinded_signature = crate::pointcheval_sanders::standin_access_impl::blinded_with_sigma2(&p.blinded_signature, s2);
    }
}
