// BOUNDED STAND-IN (native executable contracts), appended to zkabacus-crypto/src/states.rs of a scratch copy.
#[cfg(test)]
mod verif_standins {
    use super::*;
    use bls12_381::Scalar;
    use rand::SeedableRng;
    use zkchannels_crypto::pointcheval_sanders::KeyPair;
    fn rng() -> rand::rngs::StdRng { rand::rngs::StdRng::seed_from_u64(0x5eed) }

    /// q, the order of the scalar field, little-endian
    const Q_LE: [u8; 32] = [
        0x01, 0x00, 0x00, 0x00, 0xff, 0xff, 0xff, 0xff, 0xfe, 0x5b, 0xfe, 0xff, 0x02, 0xa4, 0xbd, 0x53, 0x05, 0xd8, 0xa1, 0x09, 0x08, 0xd8, 0x39, 0x33, 0x48, 0x7d, 0x9d, 0x29, 0x53, 0xa7, 0xed, 0x73,
    ];

    /// reference: the 256-bit little-endian integer of the id, reduced mod q by an independent route
    fn reference(id: &[u8; 32]) -> Scalar {
        let mut wide = [0u8; 64];
        wide[..32].copy_from_slice(id);
        Scalar::from_bytes_wide(&wide)
    }

    fn add_le(a: &[u8; 32], b: &[u8; 32]) -> Option<[u8; 32]> {
        let mut out = [0u8; 32];
        let mut carry = 0u16;
        for i in 0..32 {
            let s = a[i] as u16 + b[i] as u16 + carry;
            out[i] = s as u8;
            carry = s >> 8;
        }
        if carry == 0 { Some(out) } else { None }
    }

    fn sample_ids() -> Vec<[u8; 32]> {
        use rand::RngCore;
        let mut rng = rng();
        let mut ids = vec![[0u8; 32], [0xff; 32], Q_LE];
        let mut one = [0u8; 32]; one[0] = 1; ids.push(one);
        let mut top = [0u8; 32]; top[31] = 0x80; ids.push(top);
        let mut top2 = [0u8; 32]; top2[31] = 0x40; ids.push(top2);
        for _ in 0..16 { let mut b = [0u8; 32]; rng.fill_bytes(&mut b); ids.push(b); }
        ids
    }

    /// to_scalar(id) is the little-endian integer of ALL 256 bits of the id, reduced mod q;
    /// ids that differ in exactly one bit map to different scalars (near-value substitution, C06 / C18)
    #[test]
    fn standin_channel_id_scalar() {
        for id in sample_ids() {
            assert_eq!(ChannelId(id).to_scalar(), reference(&id), "STANDIN ChannelId::to_scalar: not the little-endian integer of the id mod q, id = {:02x?}", id);
            for bit in 0..256 {
                let mut near = id;
                near[bit / 8] ^= 1 << (bit % 8);
                assert_ne!(ChannelId(id).to_scalar(), ChannelId(near).to_scalar(), "STANDIN ChannelId::to_scalar: ids differing only in bit {} map to the same scalar, id = {:02x?}", bit, id);
            }
        }
    }

    /// KNOWN FINDING (recorded, not repaired): 256-bit ids are reduced mod q < 2^255, so A and A+q collide
    #[test]
    fn standin_channel_id_collision_mod_q() {
        let mut a = [0u8; 32]; a[0] = 5;
        let b = add_le(&a, &Q_LE).unwrap();
        assert_ne!(a, b);
        assert_ne!(ChannelId(a).to_scalar(), ChannelId(b).to_scalar(), "STANDIN ChannelId::to_scalar: distinct channel ids A = {:02x?} and A + q = {:02x?} map to the same scalar", a, b);
    }

    /// the channel id is a deterministic function of all five inputs and changes when any one of them changes,
    /// including changes deep inside long account infos and appended suffixes
    #[test]
    fn standin_channel_id_new() {
        let mut rng = rng();
        let kp = KeyPair::<5>::new(&mut rng);
        let kp2 = KeyPair::<5>::new(&mut rng);
        let (mr, cr) = (MerchantRandomness::new(&mut rng), CustomerRandomness::new(&mut rng));
        let (mr2, cr2) = (MerchantRandomness::new(&mut rng), CustomerRandomness::new(&mut rng));
        for len in [0usize, 1, 31, 32, 127, 128, 129, 200, 1000, 5000] {
            let m: Vec<u8> = (0..len).map(|i| (i * 7 + 1) as u8).collect();
            let c: Vec<u8> = (0..len).map(|i| (i * 13 + 5) as u8).collect();
            let base = ChannelId::new(mr, cr, kp.public_key(), &m, &c);
            assert_eq!(base.to_bytes(), ChannelId::new(mr, cr, kp.public_key(), &m, &c).to_bytes(), "STANDIN ChannelId::new: not deterministic");
            assert_ne!(base.to_bytes(), ChannelId::new(mr2, cr, kp.public_key(), &m, &c).to_bytes(), "STANDIN ChannelId::new: merchant randomness ignored");
            assert_ne!(base.to_bytes(), ChannelId::new(mr, cr2, kp.public_key(), &m, &c).to_bytes(), "STANDIN ChannelId::new: customer randomness ignored");
            assert_ne!(base.to_bytes(), ChannelId::new(mr, cr, kp2.public_key(), &m, &c).to_bytes(), "STANDIN ChannelId::new: public key ignored");
            for pos in [0usize, len / 2, len.saturating_sub(1)] {
                if len == 0 { break; }
                let mut m2 = m.clone(); m2[pos] ^= 1;
                assert_ne!(base.to_bytes(), ChannelId::new(mr, cr, kp.public_key(), &m2, &c).to_bytes(), "STANDIN ChannelId::new: merchant account info byte {} of {} ignored", pos, len);
                let mut c2 = c.clone(); c2[pos] ^= 1;
                assert_ne!(base.to_bytes(), ChannelId::new(mr, cr, kp.public_key(), &m, &c2).to_bytes(), "STANDIN ChannelId::new: customer account info byte {} of {} ignored", pos, len);
            }
            let mut m3 = m.clone(); m3.push(9);
            assert_ne!(base.to_bytes(), ChannelId::new(mr, cr, kp.public_key(), &m3, &c).to_bytes(), "STANDIN ChannelId::new: suffix of merchant account info (length {}) ignored", len);
            let mut c3 = c.clone(); c3.push(9);
            assert_ne!(base.to_bytes(), ChannelId::new(mr, cr, kp.public_key(), &m, &c3).to_bytes(), "STANDIN ChannelId::new: suffix of customer account info (length {}) ignored", len);
        }
    }

    /// C15 / C16: printing and parsing a channel id is lossless; malformed text is an error, never a panic
    #[test]
    fn standin_channel_id_text() {
        use std::str::FromStr;
        for id in sample_ids() {
            let text = ChannelId(id).to_string();
            let back = ChannelId::from_str(&text).unwrap_or_else(|e| panic!("STANDIN ChannelId text form: printed id {:?} does not parse: {}", text, e));
            assert_eq!(back.to_bytes(), id, "STANDIN ChannelId text form: print/parse changed the id {:02x?}", id);
            assert_eq!(back.to_string(), text, "STANDIN ChannelId text form: re-printing differs");
            // truncated, extended and corrupted text is refused
            // (dropping only the padding character is accepted by the base64 crate and decodes to the same 32 bytes: not demanded)
            for bad in [&text[..text.len() - 4], "", "=", "!!!!"] {
                assert!(ChannelId::from_str(bad).is_err(), "STANDIN ChannelId::from_str: accepted malformed text {:?}", bad);
            }
            let longer = base64::encode([&id[..], &[7u8][..]].concat());
            assert!(ChannelId::from_str(&longer).is_err(), "STANDIN ChannelId::from_str: accepted a 33-byte id");
            let shorter = base64::encode(&id[..31]);
            assert!(ChannelId::from_str(&shorter).is_err(), "STANDIN ChannelId::from_str: accepted a 31-byte id");
        }
    }
}
