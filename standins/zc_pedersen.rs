// BOUNDED STAND-IN (native executable contracts), appended to zkchannels-crypto/src/pedersen.rs of a scratch copy.
#[cfg(test)]
mod verif_standins {
    use super::*;
    use ff::Field;
    use rand::SeedableRng;

    fn rng() -> rand::rngs::StdRng { rand::rngs::StdRng::seed_from_u64(0x5eed) }

    /// uniformly random, except that the 64-byte fills number `start .. start+width` are all zero
    struct ZeroWindow { inner: rand::rngs::StdRng, fills: usize, start: usize, width: usize }
    impl rand::RngCore for ZeroWindow {
        fn next_u32(&mut self) -> u32 { self.inner.next_u32() }
        fn next_u64(&mut self) -> u64 { self.inner.next_u64() }
        fn fill_bytes(&mut self, dest: &mut [u8]) {
            use rand::RngCore;
            self.inner.fill_bytes(dest);
            if dest.len() == 64 {
                if self.fills >= self.start && self.fills < self.start + self.width { for b in dest.iter_mut() { *b = 0; } }
                self.fills += 1;
            }
        }
        fn try_fill_bytes(&mut self, dest: &mut [u8]) -> Result<(), rand::Error> { self.fill_bytes(dest); Ok(()) }
    }
    impl rand::CryptoRng for ZeroWindow {}

    // The checks are macros instantiated at concrete groups, not generic functions: a change of trait bounds on the
    // functions under test must not stop the stand-in from compiling.

    macro_rules! check { ($G:ty, $n:literal) => {{
        type G = $G; const N: usize = $n;
        let reference = |p: &PedersenParameters<G, N>, m: &[Scalar; N], r: Scalar| -> G { let mut acc = *p.h() * r; for i in 0..N { acc = acc + p.gs()[i] * m[i]; } acc };
        let mut rng = rng();
        let p = PedersenParameters::<G, N>::new(&mut rng);
        let rs = vec![Scalar::zero(), Scalar::one(), -Scalar::one(), Scalar::from(2), Scalar::random(&mut rng)];
        let two63 = Scalar::from(1u64 << 63);
        // message values: small, small negative, word boundaries, values with only high bytes set, random
        let lat = vec![
            Scalar::zero(), Scalar::one(), Scalar::from(2), Scalar::from(255), Scalar::from(256), -Scalar::one(), -Scalar::from(2), -Scalar::from(255), -Scalar::from(256),
            Scalar::from((1u64 << 63) - 1), two63, Scalar::from(u64::MAX), Scalar::from(u64::MAX) + Scalar::one(), Scalar::from_raw([0, 0, 1, 0]),
            Scalar::from_raw([1000, 0, 0, 0x2a << 56]), Scalar::from_raw([5, 0, 0, 3 << 56]), Scalar::random(&mut rng),
        ];
        for r in &rs { for pos in 0..N { for v in &lat { for fill in [Scalar::zero(), *r, Scalar::from(5)] {
            let mut m = [fill; N]; m[pos] = *v;
            let bf = BlindingFactor::from_scalar(*r);
            let com = Message::new(m).commit(&p, bf);
            assert!(com.to_element() == reference(&p, &m, *r), "STANDIN pedersen.Commitment::new: not h^r * prod g_i^m_i, N={} m={:?} r={:?}", N, m, r);
            assert!(com.verify_opening(&p, bf, &Message::new(m)), "STANDIN pedersen.Commitment::verify_opening: original opening rejected, N={} m={:?} r={:?}", N, m, r);
            // single-coordinate and blinding-factor perturbations (every coordinate, also inside a run of zero entries)
            for j in 0..N {
                let mut mj = m; mj[j] = mj[j] + Scalar::one();
                assert!(!com.verify_opening(&p, bf, &Message::new(mj)), "STANDIN pedersen.Commitment::verify_opening: opening perturbed in coordinate {} accepted, N={} m={:?} r={:?}", j, N, m, r);
            }
            // the negated opening opens the negated commitment, not this one (unless the commitment is the identity)
            let mut mn = m; for j in 0..N { mn[j] = -mn[j]; }
            let neg_accept = com.verify_opening(&p, BlindingFactor::from_scalar(-*r), &Message::new(mn));
            assert_eq!(neg_accept, reference(&p, &mn, -*r) == reference(&p, &m, *r), "STANDIN pedersen.Commitment::verify_opening: a commitment and its negation are confused, N={} m={:?} r={:?}", N, m, r);
            let mut m2 = m; m2[pos] = m2[pos] + Scalar::one();
            assert!(!com.verify_opening(&p, BlindingFactor::from_scalar(*r + Scalar::one()), &Message::new(m)), "STANDIN pedersen.Commitment::verify_opening: perturbed blinding factor accepted");
            // exactness against the reference on another opening
            let other = Commitment(reference(&p, &m2, *r));
            assert_eq!(other.verify_opening(&p, bf, &Message::new(m)), reference(&p, &m, *r) == reference(&p, &m2, *r));
        } } } }
        // homomorphism
        let (m1, m2) = ([Scalar::from(3); N], [Scalar::from(4); N]);
        let (r1, r2) = (Scalar::random(&mut rng), Scalar::random(&mut rng));
        let c1 = Message::new(m1).commit(&p, BlindingFactor::from_scalar(r1)).to_element();
        let c2 = Message::new(m2).commit(&p, BlindingFactor::from_scalar(r2)).to_element();
        let sum = Message::new([Scalar::from(7); N]).commit(&p, BlindingFactor::from_scalar(r1 + r2)).to_element();
        assert!(c1 + c2 == sum, "STANDIN pedersen.Commitment::new: not homomorphic");
    }} }
    /// C12: h and every generator of a parameter set enter a challenge derived from it (order included)
    macro_rules! check_challenge { ($G:ty, $n:literal) => {{
        type G = $G; const N: usize = $n;
        use crate::proofs::ChallengeBuilder;
        let mut rng = rng();
        let p = PedersenParameters::<G, N>::new(&mut rng);
        let q = PedersenParameters::<G, N>::new(&mut rng);
        let chal = |x: &PedersenParameters<G, N>| ChallengeBuilder::new().with(x).finish().to_scalar();
        // generation under randomness with an all-zero window at every scalar-sized draw: still only non-identity generators
        for start in 0..(N + 3) {
            let mut zr = ZeroWindow { inner: rand::rngs::StdRng::seed_from_u64(31 + start as u64), fills: 0, start, width: 1 };
            let z = PedersenParameters::<G, N>::new(&mut zr);
            assert!(!bool::from(z.h().is_identity()), "STANDIN PedersenParameters::new: identity h (zero window at 64-byte draw #{})", start);
            for i in 0..N { assert!(!bool::from(z.gs()[i].is_identity()), "STANDIN PedersenParameters::new: identity generator g[{}] (N = {}, zero window at 64-byte draw #{})", i, N, start); }
        }
        // generated parameters: h and the g_i are pairwise different, non-identity elements (independent draws)
        for i in 0..N {
            assert!(p.gs()[i] != *p.h(), "STANDIN PedersenParameters::new: generator g[{}] equals h - the commitment is not binding (N = {})", i, N);
            assert!(!bool::from(p.gs()[i].is_identity()) && !bool::from(p.h().is_identity()), "STANDIN PedersenParameters::new: identity generator");
            for j in 0..i { assert!(p.gs()[i] != p.gs()[j], "STANDIN PedersenParameters::new: generators g[{}] and g[{}] coincide (N = {})", j, i, N); }
        }
        let base = chal(&p);
        assert_eq!(base, chal(&PedersenParameters::from_generators(*p.h(), *p.gs())), "STANDIN pedersen parameters challenge: not deterministic");
        assert_ne!(base, chal(&PedersenParameters::from_generators(*q.h(), *p.gs())), "STANDIN pedersen parameters challenge: h does not enter the challenge (N = {})", N);
        for i in 0..N {
            let mut gs = *p.gs();
            gs[i] = q.gs()[i];
            assert_ne!(base, chal(&PedersenParameters::from_generators(*p.h(), gs)), "STANDIN pedersen parameters challenge: generator g[{}] of {} does not enter the challenge", i, N);
        }
        if N >= 2 {
            let mut gs = *p.gs();
            gs.swap(0, N - 1);
            assert_ne!(base, chal(&PedersenParameters::from_generators(*p.h(), gs)), "STANDIN pedersen parameters challenge: order of the generators does not enter the challenge");
        }
    }} }
    #[test] fn standin_pedersen_params_challenge() {
        check_challenge!(G1Projective, 1); check_challenge!(G1Projective, 2); check_challenge!(G1Projective, 5);
        check_challenge!(G2Projective, 1); check_challenge!(G2Projective, 3);
    }

    #[test] fn standin_pedersen_commitment() {
        check!(G1Projective, 1); check!(G1Projective, 2); check!(G1Projective, 3); check!(G1Projective, 5);
        check!(G2Projective, 1); check!(G2Projective, 3);
    }
}
