// BOUNDED STAND-IN (native executable contracts), appended to zkchannels-crypto/src/proofs/range.rs of a scratch copy.
#[cfg(test)]
mod verif_standins {
    use super::*;
    use rand::SeedableRng;
    fn rng() -> rand::rngs::StdRng { rand::rngs::StdRng::seed_from_u64(0x5eed) }

    fn reference_validate(p: &RangeConstraintParameters) -> bool {
        (0..128u64).all(|i| p.digit_signatures[i as usize].verify(&p.public_key, &Scalar::from(i).into()))
    }

    /// validate accepts exactly the parameter sets whose i-th signature verifies on digit i
    #[test]
    fn standin_range_validate() {
        let mut rng = rng();
        let honest = RangeConstraintParameters::new(&mut rng);
        assert!(honest.validate().is_ok(), "STANDIN range.validate: honest parameters rejected");
        let mut variants: Vec<(&str, RangeConstraintParameters)> = Vec::new();
        let mut v = honest.clone(); v.digit_signatures.swap(3, 100); variants.push(("two signatures swapped", v));
        let mut v = honest.clone(); v.digit_signatures[5] = honest.digit_signatures[6]; variants.push(("one signature substituted", v));
        let mut v = honest.clone(); v.digit_signatures[0] = honest.digit_signatures[127]; v.digit_signatures[127] = honest.digit_signatures[0]; variants.push(("extremes swapped", v));
        // correlated tampering: errors that cancel in a product of the verification equations
        let mk = crate::pointcheval_sanders::standin_access_impl::with_sigma2;
        let mut v = honest.clone();
        v.digit_signatures[3] = mk(&honest.digit_signatures[3], honest.digit_signatures[100].sigma2());
        v.digit_signatures[100] = mk(&honest.digit_signatures[100], honest.digit_signatures[3].sigma2());
        variants.push(("sigma2 of two signatures swapped", v));
        let d = G1Projective::generator() * Scalar::from(7u64);
        let mut v = honest.clone();
        v.digit_signatures[0] = mk(&honest.digit_signatures[0], (G1Projective::from(honest.digit_signatures[0].sigma2()) + d).into());
        v.digit_signatures[127] = mk(&honest.digit_signatures[127], (G1Projective::from(honest.digit_signatures[127].sigma2()) - d).into());
        variants.push(("sigma2 of two signatures shifted by +D and -D", v));
        let mut v = honest.clone();
        v.digit_signatures[64] = mk(&honest.digit_signatures[64], (G1Projective::from(honest.digit_signatures[64].sigma2()) + d).into());
        variants.push(("sigma2 of one signature shifted", v));
        for (what, v) in variants {
            assert_eq!(v.validate().is_ok(), reference_validate(&v), "STANDIN range.validate: disagrees with 'every signature i verifies on digit i' ({})", what);
        }
    }

    /// honest constraints verify against the linked response scalar for boundary values; negative values are refused;
    /// the weighted digit sum is exact for every boundary value
    #[test]
    fn standin_range_constraint() {
        let mut rng = rng();
        let params = RangeConstraintParameters::new(&mut rng);
        for v in [-1i64, i64::MIN] {
            assert!(RangeConstraintBuilder::generate_constraint_commitments(v, &params, &mut rng).is_err(), "STANDIN range: negative value accepted");
        }
        let mut values = vec![0i64, 1, 127, 128, i64::MAX, 0x0123_4567_89ab_cdef];
        for k in 1..9u32 { values.push(128i64.pow(k)); values.push(128i64.pow(k) - 1); }
        values.push(1i64 << 48); values.push((1i64 << 56) + 1);
        for v in values {
            let b = RangeConstraintBuilder::generate_constraint_commitments(v, &params, &mut rng).expect("STANDIN range: value in [0, 2^63) refused");
            let s = b.commitment_scalar();
            let c = ChallengeBuilder::new().with(&b).finish();
            let rc = b.generate_constraint_response(c);
            let expected = c.to_scalar() * Scalar::from(v as u64) + s;
            assert!(rc.verify_range_constraint(&params, c, expected), "STANDIN range.verify_range_constraint: honest constraint on {} rejected", v);
            assert!(!rc.verify_range_constraint(&params, c, expected + Scalar::one()), "STANDIN range.verify_range_constraint: mislinked constraint accepted");
            // every digit proof must verify on its own: correlated tampering that cancels in a product of the nine pairing
            // equations (sigma2 of two digit proofs exchanged, or shifted by +D / -D) must be refused
            #[cfg(feature = "bincode")]
            {
                use crate::proofs::signature::standin_access_impl as acc;
                let dup = |r: &RangeConstraint| -> RangeConstraint { bincode::deserialize(&bincode::serialize(r).unwrap()).unwrap() };
                let mut t = dup(&rc);
                let (a, b) = (acc::sigma2(&t.digit_proofs[0]), acc::sigma2(&t.digit_proofs[1]));
                if a != b {
                    acc::set_sigma2(&mut t.digit_proofs[0], b);
                    acc::set_sigma2(&mut t.digit_proofs[1], a);
                    assert!(!t.verify_range_constraint(&params, c, expected), "STANDIN range.verify_range_constraint: constraint on {} accepted with sigma2 of two digit proofs exchanged", v);
                }
                let d = G1Projective::generator() * Scalar::from(9u64);
                let mut t = dup(&rc);
                let (a, b) = (acc::sigma2(&t.digit_proofs[2]), acc::sigma2(&t.digit_proofs[8]));
                acc::set_sigma2(&mut t.digit_proofs[2], (G1Projective::from(a) + d).into());
                acc::set_sigma2(&mut t.digit_proofs[8], (G1Projective::from(b) - d).into());
                assert!(!t.verify_range_constraint(&params, c, expected), "STANDIN range.verify_range_constraint: constraint on {} accepted with sigma2 of two digit proofs shifted by +D / -D", v);
            }
        }
    }

    /// the challenge depends on every digit signature and on the public key of the parameters (C06 / C02)
    #[test]
    fn standin_range_params_challenge() {
        let mut rng = rng();
        let honest = RangeConstraintParameters::new(&mut rng);
        let other = RangeConstraintParameters::new(&mut rng);
        let chal = |p: &RangeConstraintParameters| ChallengeBuilder::new().with(p).finish().to_scalar();
        assert_eq!(chal(&honest), chal(&honest.clone()), "STANDIN range parameters challenge: not deterministic");
        for i in [0usize, 1, 64, 126, 127] {
            let mut v = honest.clone(); v.digit_signatures[i] = other.digit_signatures[i];
            assert_ne!(chal(&honest), chal(&v), "STANDIN range parameters challenge: digit signature {} does not enter the challenge", i);
        }
        let mut v = honest.clone(); v.digit_signatures.swap(3, 100);
        assert_ne!(chal(&honest), chal(&v), "STANDIN range parameters challenge: order of digit signatures does not enter the challenge");
        let mut v = honest.clone(); v.public_key = other.public_key.clone();
        assert_ne!(chal(&honest), chal(&v), "STANDIN range parameters challenge: public key does not enter the challenge");
    }

    /// C19 / C13: generated range parameters are valid for ordinary randomness and for streams with an all-zero window at
    /// every scalar-draw offset; every digit signature has a base (sigma1) of its own; u^l is exactly 2^63
    #[test]
    fn standin_range_params_generation() {
        use rand::RngCore;
        assert_eq!((RP_PARAMETER_U as u128).pow(RP_PARAMETER_L as u32), 1u128 << 63, "STANDIN range parameters: u^l must be exactly 2^63 (u = {}, l = {})", RP_PARAMETER_U, RP_PARAMETER_L);
        struct ZeroWindow { inner: rand::rngs::StdRng, fills: usize, start: usize, width: usize }
        impl RngCore for ZeroWindow {
            fn next_u32(&mut self) -> u32 { self.inner.next_u32() }
            fn next_u64(&mut self) -> u64 { self.inner.next_u64() }
            fn fill_bytes(&mut self, dest: &mut [u8]) {
                self.inner.fill_bytes(dest);
                if dest.len() == 64 {
                    if self.fills >= self.start && self.fills < self.start + self.width { for b in dest.iter_mut() { *b = 0; } }
                    self.fills += 1;
                }
            }
            fn try_fill_bytes(&mut self, dest: &mut [u8]) -> Result<(), rand::Error> { self.fill_bytes(dest); Ok(()) }
        }
        impl rand::CryptoRng for ZeroWindow {}
        let check = |p: &RangeConstraintParameters, what: &str| {
            assert!(reference_validate(p), "STANDIN RangeConstraintParameters::new: some digit signature does not verify on its digit ({})", what);
            for i in 0..128 { for j in 0..i {
                assert!(p.digit_signatures[i].sigma1() != p.digit_signatures[j].sigma1(), "STANDIN RangeConstraintParameters::new: digit signatures {} and {} share their base sigma1 - signatures on non-digits can be derived ({})", j, i, what);
            } }
        };
        let mut rng = rng();
        let p0 = RangeConstraintParameters::new(&mut rng);
        assert!(p0.validate().is_ok(), "STANDIN RangeConstraintParameters::new: generated parameters fail their own validation");
        check(&p0, "ordinary randomness");
        // key generation consumes the first draws, then one draw per digit signature: windows over the whole stream
        for width in [1usize, 2] {
            for start in (0..136).step_by(if width == 1 { 3 } else { 17 }) {
                let mut zr = ZeroWindow { inner: rand::rngs::StdRng::seed_from_u64(11 + start as u64), fills: 0, start, width };
                check(&RangeConstraintParameters::new(&mut zr), &format!("zero window at 64-byte draw #{} width {}", start, width));
            }
        }
    }
}
