// BOUNDED STAND-IN (native executable contracts), appended to zkabacus-crypto/src/proofs.rs of a scratch copy.
// C06 / C01 / C02: an accepted establish / pay proof is rejected under every single-component substitution of its
// verification tuple (fresh values and near values).  Needs --features bincode (proofs are copied by re-encoding).
#[cfg(all(test, feature = "bincode"))]
mod verif_standins {
    use crate::{
        merchant,
        proofs::*,
        states::{BlindedPayToken, ChannelId, CustomerBalance, CustomerRandomness, MerchantBalance, MerchantRandomness, State},
        PaymentAmount,
    };
    use rand::SeedableRng;
    fn rng() -> rand::rngs::StdRng { rand::rngs::StdRng::seed_from_u64(0xc06) }
    fn dup<T: serde::Serialize + serde::de::DeserializeOwned>(t: &T) -> T { bincode::deserialize(&bincode::serialize(t).unwrap()).unwrap() }

    fn cid(rng: &mut rand::rngs::StdRng, m: &merchant::Config) -> ChannelId {
        ChannelId::new(MerchantRandomness::new(rng), CustomerRandomness::new(rng), m.signing_keypair().public_key(), b"m", b"c")
    }
    fn near_ids(id: ChannelId) -> Vec<ChannelId> {
        let mut out = Vec::new();
        for (byte, mask) in [(0usize, 1u8), (15, 0x10), (31, 0x01), (31, 0x40), (31, 0x80), (31, 0xc0)] {
            let mut b = id.to_bytes();
            b[byte] ^= mask;
            out.push(b);
        }
        out.into_iter().map(|b| { use std::str::FromStr; ChannelId::from_str(&base64::encode(b)).unwrap() }).collect()
    }
    fn same_key_other_signatures(m: &merchant::Config) -> merchant::Config {
        // range parameters with the same public key but two digit signatures exchanged
        let mut bytes = bincode::serialize(&m.range_constraint_parameters).unwrap();
        let sig = 96usize; // two compressed G1 points
        let (a, b) = (3 * sig, 100 * sig);
        for i in 0..sig { bytes.swap(a + i, b + i); }
        let rp: crate::RangeConstraintParameters = bincode::deserialize(&bytes).expect("STANDIN: swapped digit signatures must still decode");
        assert!(rp != m.range_constraint_parameters);
        merchant::Config { signing_keypair: dup(&m.signing_keypair), revocation_commitment_parameters: dup(&m.revocation_commitment_parameters), range_constraint_parameters: rp }
    }

    #[test]
    fn standin_establish_tuple() {
        let mut rng = rng();
        let m = merchant::Config::new(&mut rng);
        let other = merchant::Config::new(&mut rng);
        let cfg = m.to_customer_config();
        let max = i64::MAX as u64;
        for (merch, cust) in [(0u64, 100u64), (100, 0), (7, 7), (max, 1), (1, max)] {
            let id = cid(&mut rng, &m);
            let state = State::new(&mut rng, id, MerchantBalance::try_new(merch).unwrap(), CustomerBalance::try_new(cust).unwrap());
            let ctx = Context::new(b"standin establish");
            let (proof, _, _) = EstablishProof::new(&mut rng, &cfg, &state, &ctx);
            let pv = EstablishProofPublicValues { channel_id: id, merchant_balance: state.merchant_balance(), customer_balance: state.customer_balance() };
            assert!(proof.verify(&m, &pv, &ctx).is_some(), "STANDIN EstablishProof: honest proof rejected (merchant {}, customer {})", merch, cust);
            assert!(proof.verify(&other, &pv, &ctx).is_none(), "STANDIN EstablishProof::verify: accepted under another merchant key");
            let mixed = merchant::Config { signing_keypair: dup(&other.signing_keypair), revocation_commitment_parameters: dup(&m.revocation_commitment_parameters), range_constraint_parameters: dup(&m.range_constraint_parameters) };
            assert!(proof.verify(&mixed, &pv, &ctx).is_none(), "STANDIN EstablishProof::verify: accepted under another signing key");
            let fresh = cid(&mut rng, &m);
            for (what, id2) in std::iter::once(("fresh", fresh)).chain(near_ids(id).into_iter().map(|i| ("near", i))) {
                assert!(proof.verify(&m, &EstablishProofPublicValues { channel_id: id2, ..pv }, &ctx).is_none(), "STANDIN EstablishProof::verify: accepted under a different ({}) channel id {} (proven for {})", what, id2, id);
            }
            for d in [1u64, 2, 1 << 32] {
                for b in [merch.wrapping_add(d), merch.wrapping_sub(d)] {
                    if let Ok(mb) = MerchantBalance::try_new(b) {
                        assert!(proof.verify(&m, &EstablishProofPublicValues { merchant_balance: mb, ..pv }, &ctx).is_none(), "STANDIN EstablishProof::verify: accepted under merchant balance {} (proven for {})", b, merch);
                    }
                }
                for b in [cust.wrapping_add(d), cust.wrapping_sub(d)] {
                    if let Ok(cb) = CustomerBalance::try_new(b) {
                        assert!(proof.verify(&m, &EstablishProofPublicValues { customer_balance: cb, ..pv }, &ctx).is_none(), "STANDIN EstablishProof::verify: accepted under customer balance {} (proven for {})", b, cust);
                    }
                }
            }
            if merch != cust {
                let swapped = EstablishProofPublicValues { channel_id: id, merchant_balance: MerchantBalance::try_new(cust).unwrap(), customer_balance: CustomerBalance::try_new(merch).unwrap() };
                assert!(proof.verify(&m, &swapped, &ctx).is_none(), "STANDIN EstablishProof::verify: accepted with the two balances exchanged");
            }
            for c2 in [&b"standin establisi"[..], b"standin establish ", b"", b"Standin establish"] {
                assert!(proof.verify(&m, &pv, &Context::new(c2)).is_none(), "STANDIN EstablishProof::verify: accepted under context {:?}", c2);
            }
        }
    }

    #[test]
    fn standin_pay_tuple() {
        let mut rng = rng();
        let m = merchant::Config::new(&mut rng);
        let other = merchant::Config::new(&mut rng);
        let cfg = m.to_customer_config();
        let max = i64::MAX as u64;
        for (merch, cust, pay) in [(0u64, 100u64, 10i64), (100, 100, -10), (5, max - 5, 0), (max - 1, 1, 1), (1, max - 1, -1)] {
            let id = cid(&mut rng, &m);
            let old = State::new(&mut rng, id, MerchantBalance::try_new(merch).unwrap(), CustomerBalance::try_new(cust).unwrap());
            let ectx = Context::new(b"standin establish");
            let (eproof, _, pt_bf) = EstablishProof::new(&mut rng, &cfg, &old, &ectx);
            let (vs, _) = eproof.verify(&m, &EstablishProofPublicValues { channel_id: id, merchant_balance: old.merchant_balance(), customer_balance: old.customer_balance() }, &ectx).expect("STANDIN: honest establish proof rejected");
            let token = BlindedPayToken::sign(&mut rng, &m, vs).unblind(pt_bf);
            let amount = if pay >= 0 { PaymentAmount::pay_merchant(pay as u64).unwrap() } else { PaymentAmount::pay_customer((-pay) as u64).unwrap() };
            let new = old.apply_payment(&mut rng, amount).unwrap();
            let ctx = Context::new(b"standin pay");
            let nonce = *old.nonce();
            let (proof, _) = PayProof::new(&mut rng, &cfg, token, &old, &new, &ctx);
            let bytes = bincode::serialize(&proof).unwrap();
            let copy = || -> PayProof { bincode::deserialize(&bytes).unwrap() };
            let pv = PayProofPublicValues { old_nonce: nonce, amount };
            assert!(copy().verify(&m, &pv, &ctx).is_some(), "STANDIN PayProof: honest proof rejected (merchant {}, customer {}, amount {})", merch, cust, pay);
            assert!(copy().verify(&other, &pv, &ctx).is_none(), "STANDIN PayProof::verify: accepted under another merchant");
            let parts = |k: &merchant::Config, r: &merchant::Config, p: &merchant::Config| merchant::Config { signing_keypair: dup(&k.signing_keypair), revocation_commitment_parameters: dup(&r.revocation_commitment_parameters), range_constraint_parameters: dup(&p.range_constraint_parameters) };
            assert!(copy().verify(&parts(&other, &m, &m), &pv, &ctx).is_none(), "STANDIN PayProof::verify: accepted under another signing key");
            assert!(copy().verify(&parts(&m, &other, &m), &pv, &ctx).is_none(), "STANDIN PayProof::verify: accepted under other revocation-commitment parameters");
            assert!(copy().verify(&parts(&m, &m, &other), &pv, &ctx).is_none(), "STANDIN PayProof::verify: accepted under other (fresh) range parameters");
            assert!(copy().verify(&same_key_other_signatures(&m), &pv, &ctx).is_none(), "STANDIN PayProof::verify: accepted under range parameters with the same key but different digit signatures");
            assert!(copy().verify(&m, &PayProofPublicValues { old_nonce: *new.nonce(), amount }, &ctx).is_none(), "STANDIN PayProof::verify: accepted under a different nonce");
            for d in [1i64, -1, 2, 1 << 40] {
                if let Some(a2) = pay.checked_add(d) {
                    let amt2 = if a2 >= 0 { PaymentAmount::pay_merchant(a2 as u64) } else { PaymentAmount::pay_customer(a2.unsigned_abs()) };
                    if let Ok(amt2) = amt2 {
                        assert!(copy().verify(&m, &PayProofPublicValues { old_nonce: nonce, amount: amt2 }, &ctx).is_none(), "STANDIN PayProof::verify: accepted under amount {} (proven for {})", a2, pay);
                    }
                }
            }
            if pay != 0 {
                let neg = if pay > 0 { PaymentAmount::pay_customer(pay as u64).unwrap() } else { PaymentAmount::pay_merchant((-pay) as u64).unwrap() };
                assert!(copy().verify(&m, &PayProofPublicValues { old_nonce: nonce, amount: neg }, &ctx).is_none(), "STANDIN PayProof::verify: accepted under the negated amount");
            }
            for c2 in [&b"standin paz"[..], b"standin pay ", b"", b"standin establish"] {
                assert!(copy().verify(&m, &pv, &Context::new(c2)).is_none(), "STANDIN PayProof::verify: accepted under context {:?}", c2);
            }
        }
    }

    /// C14: no published commitment scalar is the commitment scalar of a hidden slot: for every response z of every
    /// sub-proof, every secret m of the customer and every published scalar s, z - c*m != s (otherwise (z - s)/c = m is exposed)
    #[test]
    fn standin_no_hidden_slot_exposed() {
        use crate::CLOSE_SCALAR;
        use bls12_381::Scalar;
        let mut rng = rng();
        let m = merchant::Config::new(&mut rng);
        let cfg = m.to_customer_config();
        for (merch, cust, pay) in [(0u64, 100u64, 10i64), (50, 50, -7), (9, 1, 0)] {
            let id = cid(&mut rng, &m);
            let old = State::new(&mut rng, id, MerchantBalance::try_new(merch).unwrap(), CustomerBalance::try_new(cust).unwrap());
            let ectx = Context::new(b"standin establish");
            let (eproof, _, pt_bf) = EstablishProof::new(&mut rng, &cfg, &old, &ectx);
            // establish: challenge from the public close-tag slot of the close-state proof
            {
                let zc = eproof.close_state_proof.conjunction_response_scalars();
                let zs = eproof.state_proof.conjunction_response_scalars();
                let c = (zc[1] - eproof.close_tag_commitment_scalar) * CLOSE_SCALAR.invert().unwrap();
                let published = [eproof.channel_id_commitment_scalar, eproof.close_tag_commitment_scalar, eproof.customer_balance_commitment_scalar, eproof.merchant_balance_commitment_scalar];
                let secrets = [("nonce", old.nonce().as_scalar()), ("revocation lock", old.revocation_lock().to_scalar())];
                for (zi, z) in zs.iter().chain(zc.iter()).enumerate() {
                    for (what, sec) in secrets.iter() {
                        assert!(!published.contains(&(*z - c * sec)), "STANDIN EstablishProof::new: the {} is exposed: (response {} - a published commitment scalar) / challenge", what, zi);
                    }
                }
            }
            let (vs, _) = eproof.verify(&m, &EstablishProofPublicValues { channel_id: id, merchant_balance: old.merchant_balance(), customer_balance: old.customer_balance() }, &ectx).expect("STANDIN: honest establish proof rejected");
            let token = BlindedPayToken::sign(&mut rng, &m, vs).unblind(pt_bf);
            let amount = if pay >= 0 { PaymentAmount::pay_merchant(pay as u64).unwrap() } else { PaymentAmount::pay_customer((-pay) as u64).unwrap() };
            let new = old.apply_payment(&mut rng, amount).unwrap();
            let ctx = Context::new(b"standin pay");
            let (proof, _) = PayProof::new(&mut rng, &cfg, token, &old, &new, &ctx);
            let zc = proof.close_state_proof.conjunction_response_scalars();
            let c = (zc[1] - proof.close_tag_commitment_scalar) * CLOSE_SCALAR.invert().unwrap();
            let published = [proof.old_nonce_commitment_scalar, proof.close_tag_commitment_scalar];
            let secrets = [
                ("channel id", id.to_scalar()), ("new nonce", new.nonce().as_scalar()), ("new revocation lock", new.revocation_lock().to_scalar()),
                ("old revocation lock", old.revocation_lock().to_scalar()), ("new customer balance", new.customer_balance().to_scalar()),
                ("new merchant balance", new.merchant_balance().to_scalar()), ("old customer balance", old.customer_balance().to_scalar()), ("old merchant balance", old.merchant_balance().to_scalar()),
            ];
            let all: Vec<Scalar> = proof.state_proof.conjunction_response_scalars().iter().chain(zc.iter())
                .chain(proof.old_pay_token_proof.conjunction_response_scalars().iter()).chain(proof.old_revocation_lock_proof.conjunction_response_scalars().iter()).copied().collect();
            for (zi, z) in all.iter().enumerate() {
                for (what, sec) in secrets.iter() {
                    assert!(!published.contains(&(*z - c * sec)), "STANDIN PayProof::new: the {} is exposed: it equals (response {} - a published commitment scalar) / challenge", what, zi);
                }
            }
            // every digit proof of the two range constraints shows its own blinded, re-randomised signature and commitment:
            // equal material in two positions reveals which digits of the hidden balances coincide
            let mut shown: Vec<Vec<u8>> = Vec::new();
            for rc in [bincode::serialize(&proof.customer_balance_proof).unwrap(), bincode::serialize(&proof.merchant_balance_proof).unwrap()] {
                assert_eq!(rc.len() % 9, 0, "STANDIN: unexpected range-constraint encoding");
                let w = rc.len() / 9;
                for j in 0..9 { shown.push(rc[j * w..j * w + 96 + 96].to_vec()); }
            }
            for i in 0..shown.len() { for j in 0..i {
                assert!(shown[i][..48] != shown[j][..48], "STANDIN PayProof::new: digit proofs {} and {} show the same blinded signature element (balances {} / {})", j, i, new.customer_balance().into_inner(), new.merchant_balance().into_inner());
                assert!(shown[i][96..] != shown[j][96..], "STANDIN PayProof::new: digit proofs {} and {} show the same commitment", j, i);
            } }
        }
    }

    /// the context digest depends on every byte of the transcript, however long
    #[test]
    fn standin_context_digest() {
        for len in [0usize, 1, 31, 32, 33, 1023, 1024, 1025, 1512, 4096, 4097, 70_000] {
            let t: Vec<u8> = (0..len).map(|i| (i * 31 + 7) as u8).collect();
            let base = Context::new(&t).as_bytes();
            assert_eq!(base, Context::new(&t).as_bytes(), "STANDIN Context::new: not deterministic");
            for pos in [0usize, len / 2, len.saturating_sub(1)] {
                if len == 0 { break; }
                let mut t2 = t.clone(); t2[pos] ^= 1;
                assert_ne!(base, Context::new(&t2).as_bytes(), "STANDIN Context::new: byte {} of a {}-byte transcript does not enter the context", pos, len);
            }
            let mut t3 = t.clone(); t3.push(0);
            assert_ne!(base, Context::new(&t3).as_bytes(), "STANDIN Context::new: an appended byte (transcript of {} bytes) does not enter the context", len);
            // reference: SHA3-256 of the whole transcript
            use sha3::{Digest, Sha3_256};
            let mut h = Sha3_256::new(); h.update(&t);
            assert_eq!(&base[..], &h.finalize()[..], "STANDIN Context::new: not the SHA3-256 digest of the whole transcript ({} bytes)", len);
        }
    }

    /// C01 (verifier exactness, bounded): a cheating customer that runs the establish prover on a STATE message and a CLOSE-STATE
    /// message of its choice.  With the honest messages the forged proof must be accepted (sanity of the forger); with any
    /// single slot of either message moved away from the agreed values it must be refused - every conjunct of the relation matters.
    fn forge_establish(rng: &mut rand::rngs::StdRng, cfg: &crate::customer::Config, state_msg: [bls12_381::Scalar; 5], close_msg: [bls12_381::Scalar; 5],
                       public: (bls12_381::Scalar, bls12_381::Scalar, bls12_381::Scalar), context: &Context) -> EstablishProof {
        use zkchannels_crypto::{proofs::{ChallengeBuilder, SignatureRequestProofBuilder}, Message};
        let pk = cfg.merchant_public_key();
        let sb = SignatureRequestProofBuilder::generate_proof_commitments(rng, Message::new(state_msg), &[None; 5], pk);
        let cs = *sb.conjunction_commitment_scalars();
        let cb = SignatureRequestProofBuilder::generate_proof_commitments(rng, Message::new(close_msg), &[Some(cs[0]), None, Some(cs[2]), Some(cs[3]), Some(cs[4])], pk);
        let ccs = *cb.conjunction_commitment_scalars();
        // the challenge is what the verifier will recompute: take it from the verifier's own code path by building a proof
        // object first with a dummy challenge is impossible, so the transcript is rebuilt here in the documented order; if the
        // order ever changes the sanity check below fails and the stand-in reports nothing
        let challenge = ChallengeBuilder::new()
            .with(pk).with(&public.0).with(&crate::CLOSE_SCALAR).with(&public.1).with(&public.2)
            .with(&sb).with(&cb)
            .with(&ccs[0]).with(&ccs[1]).with(&ccs[3]).with(&ccs[4])
            .with_bytes(context.as_bytes())
            .finish();
        EstablishProof {
            channel_id_commitment_scalar: ccs[0], close_tag_commitment_scalar: ccs[1], customer_balance_commitment_scalar: ccs[3], merchant_balance_commitment_scalar: ccs[4],
            state_proof: sb.generate_proof_response(challenge), close_state_proof: cb.generate_proof_response(challenge),
        }
    }

    #[test]
    fn standin_establish_cheating_prover() {
        use bls12_381::Scalar;
        let mut rng = rng();
        let m = merchant::Config::new(&mut rng);
        let cfg = m.to_customer_config();
        for (merch, cust) in [(7u64, 100u64), (0, 1), (i64::MAX as u64, 3)] {
            let id = cid(&mut rng, &m);
            let honest = State::new(&mut rng, id, MerchantBalance::try_new(merch).unwrap(), CustomerBalance::try_new(cust).unwrap());
            let ctx = Context::new(b"standin cheat");
            let pv = EstablishProofPublicValues { channel_id: id, merchant_balance: honest.merchant_balance(), customer_balance: honest.customer_balance() };
            let public = (id.to_scalar(), honest.customer_balance().to_scalar(), honest.merchant_balance().to_scalar());
            let sm = *honest.to_message();
            let cm = *honest.close_state().to_message();
            let sane = forge_establish(&mut rng, &cfg, sm, cm, public, &ctx);
            if sane.verify(&m, &pv, &ctx).is_none() {
                // the forger no longer mirrors the prover (e.g. the transcript layout changed): inconclusive, say nothing
                return;
            }
            for slot in 0..5 {
                for delta in [Scalar::one(), -Scalar::one(), Scalar::from(1u64 << 40)] {
                    let mut s2 = sm; s2[slot] += delta;
                    let p = forge_establish(&mut rng, &cfg, s2, cm, public, &ctx);
                    // slot 1 of the state (the nonce) is free: any nonce is a valid state
                    if slot != 1 {
                        assert!(p.verify(&m, &pv, &ctx).is_none(), "STANDIN EstablishProof::verify: accepted a proof whose hidden STATE differs from the agreed values in slot {} (0 channel id, 2 revocation lock vs close state, 3 customer balance, 4 merchant balance); agreed merchant {}, customer {}", slot, merch, cust);
                    }
                    let mut c2 = cm; c2[slot] += delta;
                    let p = forge_establish(&mut rng, &cfg, sm, c2, public, &ctx);
                    assert!(p.verify(&m, &pv, &ctx).is_none(), "STANDIN EstablishProof::verify: accepted a proof whose hidden CLOSE STATE differs from the agreed values in slot {} (0 channel id, 1 close tag, 2 revocation lock vs state, 3 customer balance, 4 merchant balance); agreed merchant {}, customer {}", slot, merch, cust);
                }
            }
            // both messages moved together in the lock slot is a different (valid) state: accepted
            let mut s2 = sm; s2[2] += Scalar::one();
            let mut c2 = cm; c2[2] += Scalar::one();
            assert!(forge_establish(&mut rng, &cfg, s2, c2, public, &ctx).verify(&m, &pv, &ctx).is_some(), "STANDIN EstablishProof::verify: refused a consistent state with another revocation lock");
        }
    }

    /// C02 (verifier exactness, bounded): a cheating customer that runs the pay prover with a new-state message, a close-state
    /// message, a committed lock and range values of its choice (the old state and pay token are honest).
    #[allow(clippy::too_many_arguments)]
    fn forge_pay(rng: &mut rand::rngs::StdRng, cfg: &crate::customer::Config, token: crate::states::PayToken, old: &State, new_msg: [bls12_381::Scalar; 5],
                 close_msg: [bls12_381::Scalar; 5], lock_msg: bls12_381::Scalar, range_values: (i64, i64), context: &Context) -> PayProof {
        use zkchannels_crypto::{proofs::{ChallengeBuilder, CommitmentProofBuilder, RangeConstraintBuilder, SignatureProofBuilder, SignatureRequestProofBuilder}, Message};
        let crb = RangeConstraintBuilder::generate_constraint_commitments(range_values.0, &cfg.range_constraint_parameters, rng).unwrap();
        let mrb = RangeConstraintBuilder::generate_constraint_commitments(range_values.1, &cfg.range_constraint_parameters, rng).unwrap();
        let (ccs, mcs) = (crb.commitment_scalar(), mrb.commitment_scalar());
        let rb = CommitmentProofBuilder::generate_proof_commitments(rng, Message::new([lock_msg]), &[None], &cfg.revocation_commitment_parameters);
        let rcs = rb.conjunction_commitment_scalars()[0];
        let tb = SignatureProofBuilder::generate_proof_commitments(rng, old.to_message(), token.0, &[None, None, Some(rcs), Some(ccs), Some(mcs)], &cfg.merchant_public_key);
        let cid_cs = tb.conjunction_commitment_scalars()[0];
        let sb = SignatureRequestProofBuilder::generate_proof_commitments(rng, Message::new(new_msg), &[Some(cid_cs), None, None, Some(ccs), Some(mcs)], cfg.merchant_public_key());
        let cs = *sb.conjunction_commitment_scalars();
        let cb = SignatureRequestProofBuilder::generate_proof_commitments(rng, Message::new(close_msg), &[Some(cs[0]), None, Some(cs[2]), Some(cs[3]), Some(cs[4])], cfg.merchant_public_key());
        let challenge = ChallengeBuilder::new()
            .with(&cfg.merchant_public_key).with(&cfg.range_constraint_parameters).with(&old.nonce().as_scalar()).with(&crate::CLOSE_SCALAR)
            .with(&rb).with(&sb).with(&cb).with(&tb).with(&crb).with(&mrb)
            .with(&tb.conjunction_commitment_scalars()[1]).with(&cb.conjunction_commitment_scalars()[1])
            .with_bytes(context.as_bytes())
            .finish();
        PayProof {
            old_nonce_commitment_scalar: tb.conjunction_commitment_scalars()[1],
            close_tag_commitment_scalar: cb.conjunction_commitment_scalars()[1],
            old_pay_token_proof: tb.generate_proof_response(challenge),
            old_revocation_lock_proof: rb.generate_proof_response(challenge),
            state_proof: sb.generate_proof_response(challenge),
            close_state_proof: cb.generate_proof_response(challenge),
            customer_balance_proof: crb.generate_constraint_response(challenge),
            merchant_balance_proof: mrb.generate_constraint_response(challenge),
        }
    }

    #[test]
    fn standin_pay_cheating_prover() {
        use bls12_381::Scalar;
        let mut rng = rng();
        let m = merchant::Config::new(&mut rng);
        let cfg = m.to_customer_config();
        for (merch, cust, pay) in [(20u64, 100u64, 10i64), (50, 50, -7)] {
            let id = cid(&mut rng, &m);
            let old = State::new(&mut rng, id, MerchantBalance::try_new(merch).unwrap(), CustomerBalance::try_new(cust).unwrap());
            let ectx = Context::new(b"standin establish");
            let (eproof, _, pt_bf) = EstablishProof::new(&mut rng, &cfg, &old, &ectx);
            let (vs, _) = eproof.verify(&m, &EstablishProofPublicValues { channel_id: id, merchant_balance: old.merchant_balance(), customer_balance: old.customer_balance() }, &ectx).expect("STANDIN: honest establish proof rejected");
            let token: crate::states::PayToken = BlindedPayToken::sign(&mut rng, &m, vs).unblind(pt_bf);
            let amount = if pay >= 0 { PaymentAmount::pay_merchant(pay as u64).unwrap() } else { PaymentAmount::pay_customer((-pay) as u64).unwrap() };
            let new = old.apply_payment(&mut rng, amount).unwrap();
            let ctx = Context::new(b"standin pay cheat");
            let pv = PayProofPublicValues { old_nonce: *old.nonce(), amount };
            let nm = *new.to_message();
            let cm = *new.close_state().to_message();
            let lock = old.revocation_lock().to_scalar();
            let vals = (new.customer_balance().into_inner() as i64, new.merchant_balance().into_inner() as i64);
            let sane = forge_pay(&mut rng, &cfg, token.clone(), &old, nm, cm, lock, vals, &ctx);
            if sane.verify(&m, &pv, &ctx).is_none() {
                return; // the forger no longer mirrors the prover: inconclusive
            }
            let reject = |p: PayProof, what: &str| { assert!(p.verify(&m, &pv, &ctx).is_none(), "STANDIN PayProof::verify: accepted a proof in which {} (old {} / {}, amount {})", what, merch, cust, pay); };
            // new state: channel id, balances (with range proofs on the cheated values)
            let mut x = nm; x[0] += Scalar::one();
            reject(forge_pay(&mut rng, &cfg, token.clone(), &old, x, cm, lock, vals, &ctx), "the new state is on another channel id");
            for d in [1i64, -1] {
                let mut x = nm; x[3] = Scalar::from((vals.0 + d) as u64);
                reject(forge_pay(&mut rng, &cfg, token.clone(), &old, x, cm, lock, (vals.0 + d, vals.1), &ctx), "the new customer balance is not the old one minus the amount");
                let mut x = nm; x[4] = Scalar::from((vals.1 + d) as u64);
                reject(forge_pay(&mut rng, &cfg, token.clone(), &old, x, cm, lock, (vals.0, vals.1 + d), &ctx), "the new merchant balance is not the old one plus the amount");
                // balances that differ from the range-proved values
                let mut x = nm; x[3] = Scalar::from((vals.0 + d) as u64);
                let mut c = cm; c[3] = x[3];
                reject(forge_pay(&mut rng, &cfg, token.clone(), &old, x, c, lock, vals, &ctx), "the new customer balance is not the range-proved value");
            }
            // close state: every slot
            for (slot, what) in [(0usize, "the close state is on another channel id"), (1, "the close state does not carry the close tag"), (2, "the close state has another revocation lock than the new state"),
                                 (3, "the close state has another customer balance than the new state"), (4, "the close state has another merchant balance than the new state")] {
                let mut c = cm; c[slot] += Scalar::one();
                reject(forge_pay(&mut rng, &cfg, token.clone(), &old, nm, c, lock, vals, &ctx), what);
            }
            // committed revocation lock is not the old state's lock
            reject(forge_pay(&mut rng, &cfg, token.clone(), &old, nm, cm, lock + Scalar::one(), vals, &ctx), "the committed revocation lock is not the old state's lock");
        }
    }
}
