#!/bin/bash
# usage: run_demo.sh <test-name-substring> [repo]   -- runs a findings demo against a scratch copy of the repository
set -e
T=$1; REPO=${2:-/repo}
S=$(mktemp -d /tmp/vf_demo.XXXX)
trap 'rm -rf "$S"' EXIT
rsync -a --exclude target --exclude .git "$REPO"/ "$S"/
cat /verif/findings/f1_f2_demo.rs >> "$S"/zkabacus-crypto/src/proofs.rs
cd "$S" && CARGO_TARGET_DIR=/verif/.cache/demo-target cargo test --offline -p zkabacus-crypto --lib "$T" 2>&1 | tail -25
