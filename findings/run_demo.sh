#!/bin/bash
# usage: run_demo.sh <test-name-substring> [repo]   -- runs the findings demos against a scratch copy of the repository
T=$1; REPO=${2:-/repo}
S=$(mktemp -d /tmp/vf_demo.XXXX)
trap 'rm -rf "$S"' EXIT
rsync -a --exclude target --exclude .git "$REPO"/ "$S"/
cat /verif/findings/f1_f2_demo.rs >> "$S"/zkabacus-crypto/src/proofs.rs
cat /verif/findings/f7_demo_zkabacus.rs >> "$S"/zkabacus-crypto/src/proofs.rs
cat /verif/findings/f3_f6_demo_zkabacus.rs >> "$S"/zkabacus-crypto/src/lib.rs
cat /verif/findings/f4_f5_demo_zkchannels.rs >> "$S"/zkchannels-crypto/src/serde.rs
cd "$S" && CARGO_TARGET_DIR=/verif/.cache/demo-target cargo test --offline --no-fail-fast --features bincode -p zkabacus-crypto -p zkchannels-crypto --lib "$T" 2>&1 | grep -E '^test |test result|panicked|INVARIANT|FORGERY|error' | head -40
