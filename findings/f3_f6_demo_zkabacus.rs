// Demonstrations for findings 3 and 6 (appended to zkabacus-crypto/src/lib.rs of a SCRATCH copy; --features bincode).
#[cfg(all(test, feature = "bincode"))]
mod verif_findings_lib {
    use super::*;
    use crate::states::CustomerBalance;

    /// Finding 3 (C15): a decoded balance must never exceed 2^63-1. Kani's counterexample: eight 0xff bytes
    /// (and [0,0,0,0,0,0,0,0x80]).
    #[test]
    fn f3_decoded_balance_respects_the_range() {
        for bytes in [[0xffu8; 8], [0, 0, 0, 0, 0, 0, 0, 0x80]] {
            if let Ok(b) = bincode::deserialize::<CustomerBalance>(&bytes) {
                assert!(
                    b.into_inner() <= i64::MAX as u64,
                    "INVARIANT BROKEN: bytes {:?} decode to CustomerBalance({})",
                    bytes,
                    b.into_inner()
                );
            }
        }
    }

    /// Finding 6 (C17): the amount i64::MIN is decodable from the wire; its scalar encoding must not panic.
    #[test]
    fn f6_amount_min_encodes_without_panic() {
        let amount: PaymentAmount = bincode::deserialize(&i64::MIN.to_le_bytes()).unwrap();
        assert_eq!(amount.to_i64(), i64::MIN);
        let enc = amount.to_scalar();
        // enc(-2^63) + enc(2^63 - 1) + 1 == 0
        assert_eq!(enc + Scalar::from(i64::MAX as u64) + Scalar::one(), Scalar::zero());
    }
}
