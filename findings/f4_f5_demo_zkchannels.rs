// Demonstrations for findings 4 and 5 (appended to zkchannels-crypto/src/serde.rs of a SCRATCH copy; --features bincode).
#[cfg(all(test, feature = "bincode"))]
mod verif_findings_serde {
    use super::*;
    use crate::pointcheval_sanders::{KeyPair, PublicKey};
    use rand::SeedableRng;
    use std::convert::TryInto;

    #[derive(Serialize, Deserialize)]
    struct VecOfScalars(#[serde(with = "SerializeElement")] Vec<Scalar>);

    /// Finding 4 (C16): an honest PublicKey<5> encoding whose first length prefix announces 6 elements
    /// (with one more valid element inserted) must be refused with an error, not a panic.
    #[test]
    fn f4_array_with_one_extra_element_is_an_error_not_a_panic() {
        let mut rng = rand::rngs::StdRng::from_seed(*b"NEVER USE THIS FOR ANYTHING REAL");
        let kp = KeyPair::<5>::new(&mut rng);
        let honest = bincode::serialize(kp.public_key()).unwrap();
        // layout: g1 (48) | len y1s (8) | 5 x 48 | ...
        assert_eq!(u64::from_le_bytes(honest[48..56].try_into().unwrap()), 5);
        let mut evil = honest.clone();
        evil[48..56].copy_from_slice(&6u64.to_le_bytes());
        let extra: Vec<u8> = honest[56..104].to_vec();
        let tail = evil.split_off(56);
        evil.extend_from_slice(&extra);
        evil.extend_from_slice(&tail);
        let r = std::panic::catch_unwind(|| bincode::deserialize::<PublicKey<5>>(&evil).is_ok());
        assert!(matches!(r, Ok(false)), "decoding panicked or accepted: {:?}", r.map_err(|_| "PANIC"));
    }

    /// Finding 5 (C16): a 16-byte input announcing 2^60 elements must not make the Vec codec request
    /// memory for 2^60 elements (capacity overflow panic / allocation failure abort).
    #[test]
    fn f5_vec_length_prefix_does_not_drive_allocation() {
        let mut evil = (1u64 << 60).to_le_bytes().to_vec();
        evil.extend_from_slice(&[0u8; 8]);
        let r = std::panic::catch_unwind(|| bincode::deserialize::<VecOfScalars>(&evil).is_ok());
        assert!(matches!(r, Ok(false)), "decoding panicked or accepted: {:?}", r.map_err(|_| "PANIC"));
    }
}
