// Demonstrations for findings 1 and 2 (appended to zkabacus-crypto/src/proofs.rs of a SCRATCH copy).
// Each test states the property ("the forged proof must be refused"); on the pinned tree they FAIL
// because the forgery is accepted, with the repair they pass.
#[cfg(test)]
mod verif_findings {
    use crate::{
        customer, merchant,
        proofs::*,
        states::{ChannelId, CustomerBalance, MerchantBalance, State},
        PaymentAmount,
    };
    use rand::SeedableRng;
    use zkchannels_crypto::pointcheval_sanders::KeyPair;

    fn rng() -> impl Rng {
        let seed: [u8; 32] = *b"NEVER USE THIS FOR ANYTHING REAL";
        rand::rngs::StdRng::from_seed(seed)
    }

    fn channel_id(rng: &mut impl Rng) -> ChannelId {
        let cid_m = MerchantRandomness::new(rng);
        let cid_c = CustomerRandomness::new(rng);
        let pk = KeyPair::new(rng).public_key().clone();
        ChannelId::new(cid_m, cid_c, &pk, &[], &[])
    }

    /// Finding 1 (C01): the customer and merchant agreed on (customer 10, merchant 1000); the customer builds
    /// the proof for a hidden state with (customer 1010, merchant 0) and picks the two revealed balance
    /// commitment scalars AFTER seeing the merchant's challenge.
    #[test]
    fn f1_establish_proof_for_other_balances_must_be_refused() {
        let mut rng = rng();
        let merchant_params = merchant::Config::new(&mut rng);
        let params: customer::Config = merchant_params.to_customer_config();
        let cid = channel_id(&mut rng);
        let agreed_merchant = MerchantBalance::try_new(1000).unwrap();
        let agreed_customer = CustomerBalance::try_new(10).unwrap();
        // hidden state: same channel id, other balances
        let hidden = State::new(
            &mut rng,
            cid,
            MerchantBalance::try_new(0).unwrap(),
            CustomerBalance::try_new(1010).unwrap(),
        );
        let context = Context::new(b"finding 1");

        let state_builder = SignatureRequestProofBuilder::generate_proof_commitments(
            &mut rng,
            hidden.to_message(),
            &[None; 5],
            params.merchant_public_key(),
        );
        let cs: [Scalar; 5] = *state_builder.conjunction_commitment_scalars();
        let close_builder = SignatureRequestProofBuilder::generate_proof_commitments(
            &mut rng,
            hidden.close_state().to_message(),
            &[Some(cs[0]), None, Some(cs[2]), Some(cs[3]), Some(cs[4])],
            params.merchant_public_key(),
        );
        let close_bf = CloseStateBlindingFactor(close_builder.message_blinding_factor());
        let ccs: [Scalar; 5] = *close_builder.conjunction_commitment_scalars();

        // the merchant's challenge for the AGREED values, over everything the pinned verifier hashes
        let challenge = ChallengeBuilder::new()
            .with(&params.merchant_public_key)
            .with(&cid.to_scalar())
            .with(&CLOSE_SCALAR)
            .with(&agreed_customer.to_scalar())
            .with(&agreed_merchant.to_scalar())
            .with(&state_builder)
            .with(&close_builder)
            .with_bytes(&context.as_bytes())
            .finish();
        let c = challenge.to_scalar();

        let state_proof = state_builder.generate_proof_response(challenge);
        let close_state_proof = close_builder.generate_proof_response(challenge);
        let z = *state_proof.conjunction_response_scalars();
        // post-challenge choice of the two revealed scalars
        let forged = EstablishProof {
            channel_id_commitment_scalar: ccs[0],
            close_tag_commitment_scalar: ccs[1],
            customer_balance_commitment_scalar: z[3] - c * agreed_customer.to_scalar(),
            merchant_balance_commitment_scalar: z[4] - c * agreed_merchant.to_scalar(),
            state_proof,
            close_state_proof,
        };

        let out = merchant_params.initialize(&mut rng, &cid, agreed_customer, agreed_merchant, forged, &context);
        if let Some((closing_signature, _)) = out {
            // the merchant has just signed a close state paying the customer 1010 instead of 10
            let sig = closing_signature.unblind(close_bf);
            let lying_close_state = hidden.close_state();
            let verifies = matches!(sig.verify(&params, &lying_close_state), crate::Verification::Verified);
            panic!(
                "FORGERY ACCEPTED: merchant initialized a channel agreed as (customer 10, merchant 1000) and its closing \
                 signature verifies={} on a close state with customer balance {} / merchant balance {}",
                verifies,
                lying_close_state.customer_balance().into_inner(),
                lying_close_state.merchant_balance().into_inner()
            );
        }
    }

    /// Finding 2 (C02): one pay token, shown under a nonce that is NOT the nonce of the state it signs.
    /// The customer derives the challenge for the invented nonce and picks `old_nonce_commitment_scalar`
    /// after seeing it.
    #[test]
    fn f2_pay_proof_under_an_invented_nonce_must_be_refused() {
        let mut rng = rng();
        let merchant_params = merchant::Config::new(&mut rng);
        let params: customer::Config = merchant_params.to_customer_config();
        let cid = channel_id(&mut rng);
        let old_state = State::new(
            &mut rng,
            cid,
            MerchantBalance::try_new(100).unwrap(),
            CustomerBalance::try_new(100).unwrap(),
        );
        // honest pay token on old_state
        let pay_token = PayToken(old_state.to_message().sign(&mut rng, merchant_params.signing_keypair()));
        let amount = PaymentAmount::pay_merchant(10).unwrap();
        let state = old_state.apply_payment(&mut rng, amount).unwrap();
        let context = Context::new(b"finding 2");
        // an invented nonce, different from old_state's
        let invented = crate::Nonce::new(&mut rng);
        assert!(invented.as_scalar() != old_state.nonce().as_scalar());

        // --- PayProof::new, with the challenge taken over the invented nonce
        let customer_rc = RangeConstraintBuilder::generate_constraint_commitments(
            state.customer_balance().into_inner() as i64, &params.range_constraint_parameters, &mut rng).unwrap();
        let merchant_rc = RangeConstraintBuilder::generate_constraint_commitments(
            state.merchant_balance().into_inner() as i64, &params.range_constraint_parameters, &mut rng).unwrap();
        let ccs = customer_rc.commitment_scalar();
        let mcs = merchant_rc.commitment_scalar();
        let revlock_builder = CommitmentProofBuilder::generate_proof_commitments(
            &mut rng, old_state.revocation_lock().to_message(), &[None], &params.revocation_commitment_parameters);
        let old_revlock_cs = revlock_builder.conjunction_commitment_scalars()[0];
        let token_builder = SignatureProofBuilder::generate_proof_commitments(
            &mut rng, old_state.to_message(), pay_token.0,
            &[None, None, Some(old_revlock_cs), Some(ccs), Some(mcs)], &params.merchant_public_key);
        let cid_cs = token_builder.conjunction_commitment_scalars()[0];
        let state_builder = SignatureRequestProofBuilder::generate_proof_commitments(
            &mut rng, state.to_message(), &[Some(cid_cs), None, None, Some(ccs), Some(mcs)], params.merchant_public_key());
        let cs: [Scalar; 5] = *state_builder.conjunction_commitment_scalars();
        let close_builder = SignatureRequestProofBuilder::generate_proof_commitments(
            &mut rng, state.close_state().to_message(),
            &[Some(cs[0]), None, Some(cs[2]), Some(cs[3]), Some(cs[4])], params.merchant_public_key());

        let challenge = ChallengeBuilder::new()
            .with(&params.merchant_public_key)
            .with(&params.range_constraint_parameters)
            .with(&invented.as_scalar())
            .with(&CLOSE_SCALAR)
            .with(&revlock_builder)
            .with(&state_builder)
            .with(&close_builder)
            .with(&token_builder)
            .with(&customer_rc)
            .with(&merchant_rc)
            .with_bytes(context.as_bytes())
            .finish();
        let c = challenge.to_scalar();
        let close_tag_cs = close_builder.conjunction_commitment_scalars()[1];
        let old_pay_token_proof = token_builder.generate_proof_response(challenge);
        let z_old_nonce = old_pay_token_proof.conjunction_response_scalars()[1];
        let forged = PayProof {
            // post-challenge choice: z = c*invented + s  =>  s := z - c*invented
            old_nonce_commitment_scalar: z_old_nonce - c * invented.as_scalar(),
            close_tag_commitment_scalar: close_tag_cs,
            old_pay_token_proof,
            old_revocation_lock_proof: revlock_builder.generate_proof_response(challenge),
            state_proof: state_builder.generate_proof_response(challenge),
            close_state_proof: close_builder.generate_proof_response(challenge),
            customer_balance_proof: customer_rc.generate_constraint_response(challenge),
            merchant_balance_proof: merchant_rc.generate_constraint_response(challenge),
        };
        let out = merchant_params.allow_payment(&mut rng, amount, &invented, forged, &context);
        assert!(
            out.is_none(),
            "FORGERY ACCEPTED: merchant approved a payment for an invented nonce; the same pay token can be spent again under any other nonce"
        );
    }
}
