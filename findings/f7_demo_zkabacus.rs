// F7 (known finding, open): ChannelId::to_scalar is not injective - A and A + q collide.
// Appended to zkabacus-crypto/src/proofs.rs of a scratch copy by findings/run_demo.sh.
#[cfg(test)]
mod verif_f7 {
    use crate::{merchant, proofs::*, states::{ChannelId, CustomerBalance, MerchantBalance, State}};
    use rand::SeedableRng;
    use std::str::FromStr;

    #[test]
    fn f7_establish_proof_accepted_under_a_different_channel_id() {
        let mut rng = rand::rngs::StdRng::seed_from_u64(7);
        let m = merchant::Config::new(&mut rng);
        let cfg = m.to_customer_config();
        let mut a = [0u8; 32];
        a[0] = 5;
        // A + q, little-endian
        let b: [u8; 32] = [0x06, 0x00, 0x00, 0x00, 0xff, 0xff, 0xff, 0xff, 0xfe, 0x5b, 0xfe, 0xff, 0x02, 0xa4, 0xbd, 0x53, 0x05, 0xd8, 0xa1, 0x09, 0x08, 0xd8, 0x39, 0x33, 0x48, 0x7d, 0x9d, 0x29, 0x53, 0xa7, 0xed, 0x73];
        let id_a = ChannelId::from_str(&base64::encode(a)).unwrap();
        let id_b = ChannelId::from_str(&base64::encode(b)).unwrap();
        assert_ne!(id_a.to_bytes(), id_b.to_bytes());
        let state = State::new(&mut rng, id_a, MerchantBalance::try_new(0).unwrap(), CustomerBalance::try_new(100).unwrap());
        let ctx = Context::new(b"f7");
        let (proof, _, _) = EstablishProof::new(&mut rng, &cfg, &state, &ctx);
        let pv = |id| EstablishProofPublicValues { channel_id: id, merchant_balance: state.merchant_balance(), customer_balance: state.customer_balance() };
        assert!(proof.verify(&m, &pv(id_a), &ctx).is_some());
        assert!(proof.verify(&m, &pv(id_b), &ctx).is_none(), "INVARIANT C06: establish proof for channel id A accepted for the different channel id A + q");
    }
}
