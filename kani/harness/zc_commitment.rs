// Injected (cfg(kani)) at the end of zkchannels-crypto/src/proofs/commitment.rs of the scratch copy.
// C10 / C14 stand-in for the one statement of generate_proof_commitments that Verus cannot take (a closure
// capturing `&mut rng`): the commitment scalars a caller supplies are used unchanged, for EVERY choice of
// supplied scalars and EVERY randomness stream.  Group arithmetic is not in the path: `Message::commit` is
// stubbed by a dummy and `Scalar::from_bytes_wide` (the tail of Scalar::random) by an arbitrary scalar.
// Bound: tuple length N in {1, 2, 3} (the code is generic in N; the loop is unrolled completely).
use super::*;
use rand::{CryptoRng, RngCore};

fn any_scalar() -> Scalar {
    unsafe { core::mem::transmute::<[u64; 4], Scalar>(kani::any()) }
}

struct KRng;
impl RngCore for KRng {
    fn next_u32(&mut self) -> u32 { kani::any() }
    fn next_u64(&mut self) -> u64 { kani::any() }
    fn fill_bytes(&mut self, _dest: &mut [u8]) {}
    fn try_fill_bytes(&mut self, dest: &mut [u8]) -> Result<(), rand::Error> { self.fill_bytes(dest); Ok(()) }
}
impl CryptoRng for KRng {}

fn stub_commit<const N: usize, G: Group<Scalar = Scalar>>(_m: &Message<N>, _p: &PedersenParameters<G, N>, _bf: BlindingFactor) -> Commitment<G> {
    Commitment(G::identity())
}
fn stub_from_bytes_wide(_b: &[u8; 64]) -> Scalar { any_scalar() }

fn any_given() -> Option<Scalar> { if kani::any() { Some(any_scalar()) } else { None } }

macro_rules! commit_scalars_harness {
    ($name:ident, $n:literal, $unw:literal, [$($g:expr),*], [$($m:expr),*]) => {
        #[kani::proof]
        #[kani::unwind($unw)]
        #[kani::stub(Message::commit, stub_commit)]
        #[kani::stub(bls12_381::Scalar::from_bytes_wide, stub_from_bytes_wide)]
        fn $name() {
            let given: [Option<Scalar>; $n] = [$($g),*];
            let m: [Scalar; $n] = [$($m),*];
            let params = PedersenParameters::<G1Projective, $n>::from_generators(G1Projective::identity(), [G1Projective::identity(); $n]);
            let b = CommitmentProofBuilder::generate_proof_commitments(&mut KRng, Message::new(m), &given, &params);
            for i in 0..$n {
                // caller-chosen commitment scalars are used exactly as given
                if let Some(s) = given[i] {
                    assert!(b.conjunction_commitment_scalars()[i] == s);
                }
                // the message is stored unchanged
                assert!(b.msg[i] == m[i]);
            }
        }
    };
}
commit_scalars_harness!(commit_scalars_respected_n1, 1, 3, [any_given()], [any_scalar()]);
commit_scalars_harness!(commit_scalars_respected_n2, 2, 4, [any_given(), any_given()], [any_scalar(), any_scalar()]);
commit_scalars_harness!(commit_scalars_respected_n3, 3, 5, [any_given(), any_given(), any_given()], [any_scalar(), any_scalar(), any_scalar()]);

// ---- C14 stand-in for the same statement: every slot the caller leaves open (None) consumes a draw of its own.
// The tail of Scalar::random is replaced by a stub returning the k-th tagged value, so "a draw of its own" is a
// checkable statement about values: open-slot scalars are tagged draws, pairwise different, and different from the
// draws used for the blinding factor and its commitment scalar.  Order of draws is not prescribed.
static mut NDRAWS: u64 = 0;
fn tagged(k: u64) -> Scalar { unsafe { core::mem::transmute::<[u64; 4], Scalar>([k, 0x7a67, 0, 0]) } }
fn is_tagged(s: &Scalar) -> bool {
    let l = unsafe { core::mem::transmute::<Scalar, [u64; 4]>(*s) };
    l[1] == 0x7a67 && l[2] == 0 && l[3] == 0 && l[0] >= 1 && l[0] <= unsafe { NDRAWS }
}
fn stub_from_bytes_wide_tagged(_b: &[u8; 64]) -> Scalar { unsafe { NDRAWS += 1; tagged(NDRAWS) } }

macro_rules! open_slots_harness {
    ($name:ident, $n:literal, $unw:literal, [$($g:expr),*], [$($m:expr),*]) => {
        #[kani::proof]
        #[kani::unwind($unw)]
        #[kani::stub(Message::commit, stub_commit)]
        #[kani::stub(bls12_381::Scalar::from_bytes_wide, stub_from_bytes_wide_tagged)]
        fn $name() {
            let given: [Option<Scalar>; $n] = [$($g),*];
            // caller-given scalars are not tagged values (they are the caller's business)
            for i in 0..$n { if let Some(s) = given[i] { kani::assume(!(unsafe { core::mem::transmute::<Scalar, [u64; 4]>(s) }[1] == 0x7a67)); } }
            let m: [Scalar; $n] = [$($m),*];
            let params = PedersenParameters::<G1Projective, $n>::from_generators(G1Projective::identity(), [G1Projective::identity(); $n]);
            let b = CommitmentProofBuilder::generate_proof_commitments(&mut KRng, Message::new(m), &given, &params);
            let cs = b.conjunction_commitment_scalars();
            for i in 0..$n {
                if given[i].is_none() {
                    assert!(is_tagged(&cs[i]));
                    assert!(cs[i] != b.blinding_factor_commitment_scalar);
                    assert!(cs[i] != b.message_blinding_factor.0);
                    for j in 0..$n {
                        if j != i && given[j].is_none() { assert!(cs[i] != cs[j]); }
                    }
                }
            }
            assert!(is_tagged(&b.blinding_factor_commitment_scalar) && is_tagged(&b.message_blinding_factor.0));
            assert!(b.blinding_factor_commitment_scalar != b.message_blinding_factor.0);
        }
    };
}
open_slots_harness!(commit_open_slots_fresh_n1, 1, 3, [any_given()], [any_scalar()]);
open_slots_harness!(commit_open_slots_fresh_n2, 2, 4, [any_given(), any_given()], [any_scalar(), any_scalar()]);
open_slots_harness!(commit_open_slots_fresh_n3, 3, 5, [any_given(), any_given(), any_given()], [any_scalar(), any_scalar(), any_scalar()]);
