// Injected (cfg(kani)) at the end of zkchannels-crypto/src/proofs/commitment.rs of the scratch copy.
// C10 / C14 stand-in for the one statement of generate_proof_commitments that Verus cannot take (a closure
// capturing `&mut rng`): the commitment scalars a caller supplies are used unchanged, for EVERY choice of
// supplied scalars and EVERY randomness stream.  Group arithmetic is not in the path: `Message::commit` is
// stubbed by a dummy and `Scalar::from_bytes_wide` (the tail of Scalar::random) by an arbitrary scalar.
// Bound: tuple length N in {1, 2, 3} (the code is generic in N; the loop is unrolled completely).
use super::*;
use rand::{CryptoRng, RngCore};

fn any_scalar() -> Scalar {
    unsafe { core::mem::transmute::<[u64; 4], Scalar>(kani::any()) }
}

struct KRng;
impl RngCore for KRng {
    fn next_u32(&mut self) -> u32 { kani::any() }
    fn next_u64(&mut self) -> u64 { kani::any() }
    fn fill_bytes(&mut self, _dest: &mut [u8]) {}
    fn try_fill_bytes(&mut self, dest: &mut [u8]) -> Result<(), rand::Error> { self.fill_bytes(dest); Ok(()) }
}
impl CryptoRng for KRng {}

fn stub_commit<const N: usize, G: Group<Scalar = Scalar>>(_m: &Message<N>, _p: &PedersenParameters<G, N>, _bf: BlindingFactor) -> Commitment<G> {
    Commitment(G::identity())
}
fn stub_from_bytes_wide(_b: &[u8; 64]) -> Scalar { any_scalar() }

fn any_given() -> Option<Scalar> { if kani::any() { Some(any_scalar()) } else { None } }

macro_rules! commit_scalars_harness {
    ($name:ident, $n:literal, $unw:literal, [$($g:expr),*], [$($m:expr),*]) => {
        #[kani::proof]
        #[kani::unwind($unw)]
        #[kani::stub(Message::commit, stub_commit)]
        #[kani::stub(bls12_381::Scalar::from_bytes_wide, stub_from_bytes_wide)]
        fn $name() {
            let given: [Option<Scalar>; $n] = [$($g),*];
            let m: [Scalar; $n] = [$($m),*];
            let params = PedersenParameters::<G1Projective, $n>::from_generators(G1Projective::identity(), [G1Projective::identity(); $n]);
            let b = CommitmentProofBuilder::generate_proof_commitments(&mut KRng, Message::new(m), &given, &params);
            for i in 0..$n {
                // caller-chosen commitment scalars are used exactly as given
                if let Some(s) = given[i] {
                    assert!(b.conjunction_commitment_scalars()[i] == s);
                }
                // the message is stored unchanged
                assert!(b.msg[i] == m[i]);
            }
        }
    };
}
commit_scalars_harness!(commit_scalars_respected_n1, 1, 3, [any_given()], [any_scalar()]);
commit_scalars_harness!(commit_scalars_respected_n2, 2, 4, [any_given(), any_given()], [any_scalar(), any_scalar()]);
commit_scalars_harness!(commit_scalars_respected_n3, 3, 5, [any_given(), any_given(), any_given()], [any_scalar(), any_scalar(), any_scalar()]);
