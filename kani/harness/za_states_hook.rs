// appended to zkabacus-crypto/src/states.rs of the scratch copy under cfg(kani): visibility shims only
#[cfg(kani)]
pub(crate) fn test_apply_customer(b: CustomerBalance, a: PaymentAmount) -> Result<CustomerBalance, Error> { b.apply(a) }
#[cfg(kani)]
pub(crate) fn test_apply_merchant(b: MerchantBalance, a: PaymentAmount) -> Result<MerchantBalance, Error> { b.apply(a) }
