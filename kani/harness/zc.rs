// Kani harnesses injected (under cfg(kani)) into a scratch copy of zkchannels-crypto/src/lib.rs.
// The sequence visitors of serde.rs are driven by a harness Deserializer whose SeqAccess yields an
// ARBITRARY number of elements with an ARBITRARY size hint; elements are a light type so that no
// curve arithmetic is in the path (the visitors are generic in the element type).
use crate::serde::SerializeElement;
use ::serde::de::{self, DeserializeSeed, Deserializer, SeqAccess, Visitor};
use ::serde::{forward_to_deserialize_any, Deserialize};

#[derive(Debug)]
pub struct HErr;
impl std::fmt::Display for HErr {
    fn fmt(&self, _f: &mut std::fmt::Formatter<'_>) -> std::fmt::Result { Ok(()) }
}
impl std::error::Error for HErr {}
impl de::Error for HErr {
    fn custom<T: std::fmt::Display>(_msg: T) -> Self { HErr }
}

/// element type: one byte, decoding may fail
#[derive(Debug, Clone, Copy, PartialEq)]
pub struct El(u8);
impl SerializeElement for El {
    fn serialize<S: ::serde::Serializer>(this: &Self, s: S) -> Result<S::Ok, S::Error> { s.serialize_u8(this.0) }
    fn deserialize<'de, D: Deserializer<'de>>(d: D) -> Result<Self, D::Error> { u8::deserialize(d).map(El) }
}

struct ElemDe;
impl<'de> Deserializer<'de> for ElemDe {
    type Error = HErr;
    fn deserialize_any<V: Visitor<'de>>(self, _v: V) -> Result<V::Value, HErr> { Err(HErr) }
    fn deserialize_u8<V: Visitor<'de>>(self, v: V) -> Result<V::Value, HErr> {
        if kani::any() { v.visit_u8(kani::any()) } else { Err(HErr) }
    }
    forward_to_deserialize_any! { bool i8 i16 i32 i64 i128 u16 u32 u64 u128 f32 f64 char str string bytes byte_buf option unit unit_struct newtype_struct seq tuple tuple_struct map struct enum identifier ignored_any }
}

struct Seq { left: usize, hint: Option<usize>, pub pulled: usize }
impl<'de> SeqAccess<'de> for Seq {
    type Error = HErr;
    fn next_element_seed<T: DeserializeSeed<'de>>(&mut self, seed: T) -> Result<Option<T::Value>, HErr> {
        if self.left == 0 { return Ok(None); }
        self.left -= 1;
        self.pulled += 1;
        seed.deserialize(ElemDe).map(Some)
    }
    fn size_hint(&self) -> Option<usize> { self.hint }
}

struct SeqDe { count: usize, hint: Option<usize> }
impl<'de> Deserializer<'de> for SeqDe {
    type Error = HErr;
    fn deserialize_any<V: Visitor<'de>>(self, _v: V) -> Result<V::Value, HErr> { Err(HErr) }
    fn deserialize_seq<V: Visitor<'de>>(self, v: V) -> Result<V::Value, HErr> {
        v.visit_seq(Seq { left: self.count, hint: self.hint, pulled: 0 })
    }
    fn deserialize_tuple<V: Visitor<'de>>(self, _len: usize, v: V) -> Result<V::Value, HErr> {
        v.visit_seq(Seq { left: self.count, hint: self.hint, pulled: 0 })
    }
    forward_to_deserialize_any! { bool i8 i16 i32 i64 i128 u8 u16 u32 u64 u128 f32 f64 char str string bytes byte_buf option unit unit_struct newtype_struct tuple_struct map struct enum identifier ignored_any }
}

fn any_hint() -> Option<usize> { if kani::any() { Some(kani::any()) } else { None } }

/// C16: the fixed-size array visitor returns a value or an error for ANY number of announced elements.
/// Ok exactly when the sequence has N elements that all decode.
macro_rules! array_visitor_harness {
    ($name:ident, $n:literal, $unw:literal) => {
        #[kani::proof]
        #[kani::unwind($unw)]
        fn $name() {
            let count: usize = kani::any();
            kani::assume(count <= $n + 2);
            let r = <[El; $n] as SerializeElement>::deserialize(SeqDe { count, hint: any_hint() });
            if r.is_ok() { assert!(count == $n); }
            if count != $n { assert!(r.is_err()); }
        }
    };
}
array_visitor_harness!(array_visitor_total_n1, 1, 5);
array_visitor_harness!(array_visitor_total_n5, 5, 9);

#[kani::proof]
#[kani::unwind(5)]
fn boxed_array_visitor_total_n1() {
    let count: usize = kani::any();
    kani::assume(count <= 3);
    let r = <Box<[El; 1]> as SerializeElement>::deserialize(SeqDe { count, hint: any_hint() });
    if r.is_ok() { assert!(count == 1); }
}

/// C16: the Vec visitor never requests memory out of proportion to what the input can back:
/// with zero elements actually present, an attacker-chosen size hint must not drive the allocation.
#[kani::proof]
#[kani::unwind(4)]
fn vec_visitor_bounded_allocation() {
    let count: usize = kani::any();
    kani::assume(count <= 2);
    let hint = any_hint();
    let r = <Vec<El> as SerializeElement>::deserialize(SeqDe { count, hint });
    if let Ok(v) = r {
        assert!(v.len() == count);
        // capacity is not driven by the hint beyond a constant cap
        assert!(v.capacity() <= core::cmp::max(4096, 2 * count + 8));
    }
}
