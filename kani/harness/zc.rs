// Kani harnesses injected (under cfg(kani)) into a scratch copy of zkchannels-crypto/src/lib.rs.
// The sequence visitors of serde.rs are driven by a harness Deserializer whose SeqAccess yields an
// ARBITRARY number of elements with an ARBITRARY size hint; elements are a light type so that no
// curve arithmetic is in the path (the visitors are generic in the element type).
use crate::serde::SerializeElement;
use ::serde::de::{self, DeserializeSeed, Deserializer, SeqAccess, Visitor};
use ::serde::{forward_to_deserialize_any, Deserialize};

#[derive(Debug)]
pub struct HErr;
impl std::fmt::Display for HErr {
    fn fmt(&self, _f: &mut std::fmt::Formatter<'_>) -> std::fmt::Result { Ok(()) }
}
impl std::error::Error for HErr {}
impl de::Error for HErr {
    fn custom<T: std::fmt::Display>(_msg: T) -> Self { HErr }
}

/// element type: one byte, decoding may fail
#[derive(Debug, Clone, Copy, PartialEq)]
pub struct El(u8);
impl SerializeElement for El {
    fn serialize<S: ::serde::Serializer>(this: &Self, s: S) -> Result<S::Ok, S::Error> { s.serialize_u8(this.0) }
    fn deserialize<'de, D: Deserializer<'de>>(d: D) -> Result<Self, D::Error> { u8::deserialize(d).map(El) }
}

struct ElemDe;
impl<'de> Deserializer<'de> for ElemDe {
    type Error = HErr;
    fn deserialize_any<V: Visitor<'de>>(self, _v: V) -> Result<V::Value, HErr> { Err(HErr) }
    fn deserialize_u8<V: Visitor<'de>>(self, v: V) -> Result<V::Value, HErr> {
        if kani::any() { v.visit_u8(kani::any()) } else { Err(HErr) }
    }
    forward_to_deserialize_any! { bool i8 i16 i32 i64 i128 u16 u32 u64 u128 f32 f64 char str string bytes byte_buf option unit unit_struct newtype_struct seq tuple tuple_struct map struct enum identifier ignored_any }
}

struct Seq { left: usize, hint: Option<usize>, pub pulled: usize }
impl<'de> SeqAccess<'de> for Seq {
    type Error = HErr;
    fn next_element_seed<T: DeserializeSeed<'de>>(&mut self, seed: T) -> Result<Option<T::Value>, HErr> {
        if self.left == 0 { return Ok(None); }
        self.left -= 1;
        self.pulled += 1;
        seed.deserialize(ElemDe).map(Some)
    }
    // the size hint is untrusted at EVERY call: the first call returns the announced hint, later calls anything
    fn size_hint(&self) -> Option<usize> { if self.pulled == 0 { self.hint } else { any_hint() } }
}

struct SeqDe { count: usize, hint: Option<usize> }
impl<'de> Deserializer<'de> for SeqDe {
    type Error = HErr;
    fn deserialize_any<V: Visitor<'de>>(self, _v: V) -> Result<V::Value, HErr> { Err(HErr) }
    fn deserialize_seq<V: Visitor<'de>>(self, v: V) -> Result<V::Value, HErr> {
        v.visit_seq(Seq { left: self.count, hint: self.hint, pulled: 0 })
    }
    fn deserialize_tuple<V: Visitor<'de>>(self, _len: usize, v: V) -> Result<V::Value, HErr> {
        v.visit_seq(Seq { left: self.count, hint: self.hint, pulled: 0 })
    }
    forward_to_deserialize_any! { bool i8 i16 i32 i64 i128 u8 u16 u32 u64 u128 f32 f64 char str string bytes byte_buf option unit unit_struct newtype_struct tuple_struct map struct enum identifier ignored_any }
}

/// string formatting on error paths dominates CBMC cost and is irrelevant to the obligations: formatted messages are empty
fn stub_format(_args: core::fmt::Arguments<'_>) -> String { String::new() }

fn any_hint() -> Option<usize> { if kani::any() { Some(kani::any()) } else { None } }

/// C16: the fixed-size array visitor returns a value or an error for ANY number of announced elements.
/// Ok exactly when the sequence has N elements that all decode.
macro_rules! array_visitor_harness {
    ($name:ident, $n:literal, $unw:literal) => {
        #[kani::proof]
        #[kani::unwind($unw)]
        #[kani::stub(alloc::fmt::format, stub_format)]
        fn $name() {
            let count: usize = kani::any();
            kani::assume(count <= $n + 2);
            let r = <[El; $n] as SerializeElement>::deserialize(SeqDe { count, hint: any_hint() });
            if r.is_ok() { assert!(count == $n); }
            if count != $n { assert!(r.is_err()); }
        }
    };
}
array_visitor_harness!(array_visitor_total_n1, 1, 5);
array_visitor_harness!(array_visitor_total_n5, 5, 9);

#[kani::proof]
#[kani::unwind(5)]
#[kani::stub(alloc::fmt::format, stub_format)]
fn boxed_array_visitor_total_n1() {
    let count: usize = kani::any();
    kani::assume(count <= 3);
    let r = <Box<[El; 1]> as SerializeElement>::deserialize(SeqDe { count, hint: any_hint() });
    if r.is_ok() { assert!(count == 1); }
}

/// C16: the Vec visitor never requests memory out of proportion to what the input can back:
/// with zero elements actually present, an attacker-chosen size hint must not drive the allocation.
#[kani::proof]
#[kani::unwind(4)]
#[kani::stub(alloc::fmt::format, stub_format)]
fn vec_visitor_bounded_allocation() {
    let count: usize = kani::any();
    kani::assume(count <= 2);
    let hint = any_hint();
    let r = <Vec<El> as SerializeElement>::deserialize(SeqDe { count, hint });
    if let Ok(v) = r {
        assert!(v.len() == count);
        // capacity is not driven by the hint beyond a constant cap
        assert!(v.capacity() <= core::cmp::max(4096, 2 * count + 8));
    }
}

// ---- C15 / C08: the element codecs hand the wire bytes, unchanged, to the VALIDATING bls12_381 decoder
// (canonical + on-curve + in-subgroup / canonical scalar) and accept exactly what it accepts.  The bls12_381 decoders
// are replaced by recording stubs (their documented contract is the assumption); reaching any non-validating decoder
// is an error.  Loop bounds are the fixed atom widths (48 / 96 / 32 bytes): complete for all byte strings.
struct U8De(u8);
impl<'de> Deserializer<'de> for U8De {
    type Error = HErr;
    fn deserialize_any<V: Visitor<'de>>(self, v: V) -> Result<V::Value, HErr> { v.visit_u8(self.0) }
    forward_to_deserialize_any! { bool i8 i16 i32 i64 i128 u8 u16 u32 u64 u128 f32 f64 char str string bytes byte_buf option unit unit_struct newtype_struct seq tuple tuple_struct map struct enum identifier ignored_any }
}
struct ByteSeq<'a> { bytes: &'a [u8], pos: usize }
impl<'de, 'a> SeqAccess<'de> for ByteSeq<'a> {
    type Error = HErr;
    fn next_element_seed<T: DeserializeSeed<'de>>(&mut self, seed: T) -> Result<Option<T::Value>, HErr> {
        if self.pos >= self.bytes.len() { return Ok(None); }
        let b = self.bytes[self.pos];
        self.pos += 1;
        seed.deserialize(U8De(b)).map(Some)
    }
    fn size_hint(&self) -> Option<usize> { Some(self.bytes.len() - self.pos) }
}
struct BytesDe<'a> { bytes: &'a [u8] }
impl<'de, 'a> Deserializer<'de> for BytesDe<'a> {
    type Error = HErr;
    fn deserialize_any<V: Visitor<'de>>(self, _v: V) -> Result<V::Value, HErr> { Err(HErr) }
    fn deserialize_tuple<V: Visitor<'de>>(self, _len: usize, v: V) -> Result<V::Value, HErr> { v.visit_seq(ByteSeq { bytes: self.bytes, pos: 0 }) }
    fn deserialize_seq<V: Visitor<'de>>(self, v: V) -> Result<V::Value, HErr> { v.visit_seq(ByteSeq { bytes: self.bytes, pos: 0 }) }
    forward_to_deserialize_any! { bool i8 i16 i32 i64 i128 u8 u16 u32 u64 u128 f32 f64 char str string bytes byte_buf option unit unit_struct newtype_struct tuple_struct map struct enum identifier ignored_any }
}

static mut SEEN48: [u8; 48] = [0; 48];
static mut SEEN96: [u8; 96] = [0; 96];
static mut SEEN32: [u8; 32] = [0; 32];
static mut VALIDATING_CALLS: u32 = 0;
static mut UNCHECKED_CALLS: u32 = 0;
static mut ACCEPT: bool = false;

fn stub_g1_from_compressed(bytes: &[u8; 48]) -> subtle::CtOption<bls12_381::G1Affine> {
    unsafe { SEEN48 = *bytes; VALIDATING_CALLS += 1; ACCEPT = kani::any(); subtle::CtOption::new(bls12_381::G1Affine::generator(), subtle::Choice::from(ACCEPT as u8)) }
}
fn stub_g1_unchecked(_bytes: &[u8; 48]) -> subtle::CtOption<bls12_381::G1Affine> {
    unsafe { UNCHECKED_CALLS += 1; }
    subtle::CtOption::new(bls12_381::G1Affine::generator(), subtle::Choice::from(1u8))
}
fn stub_g1_unc96(_bytes: &[u8; 96]) -> subtle::CtOption<bls12_381::G1Affine> {
    unsafe { UNCHECKED_CALLS += 1; }
    subtle::CtOption::new(bls12_381::G1Affine::generator(), subtle::Choice::from(1u8))
}
fn stub_g2_from_compressed(bytes: &[u8; 96]) -> subtle::CtOption<bls12_381::G2Affine> {
    unsafe { SEEN96 = *bytes; VALIDATING_CALLS += 1; ACCEPT = kani::any(); subtle::CtOption::new(bls12_381::G2Affine::generator(), subtle::Choice::from(ACCEPT as u8)) }
}
fn stub_g2_unchecked(_bytes: &[u8; 96]) -> subtle::CtOption<bls12_381::G2Affine> {
    unsafe { UNCHECKED_CALLS += 1; }
    subtle::CtOption::new(bls12_381::G2Affine::generator(), subtle::Choice::from(1u8))
}
fn stub_g2_unc192(_bytes: &[u8; 192]) -> subtle::CtOption<bls12_381::G2Affine> {
    unsafe { UNCHECKED_CALLS += 1; }
    subtle::CtOption::new(bls12_381::G2Affine::generator(), subtle::Choice::from(1u8))
}
fn stub_scalar_from_bytes(bytes: &[u8; 32]) -> subtle::CtOption<bls12_381::Scalar> {
    unsafe { SEEN32 = *bytes; VALIDATING_CALLS += 1; ACCEPT = kani::any(); subtle::CtOption::new(bls12_381::Scalar::one(), subtle::Choice::from(ACCEPT as u8)) }
}
fn stub_scalar_wide(_bytes: &[u8; 64]) -> bls12_381::Scalar { unsafe { UNCHECKED_CALLS += 1; } bls12_381::Scalar::one() }
fn stub_scalar_raw(_v: [u64; 4]) -> bls12_381::Scalar { unsafe { UNCHECKED_CALLS += 1; } bls12_381::Scalar::one() }

#[kani::proof]
#[kani::unwind(50)]
#[kani::stub(bls12_381::G1Affine::from_compressed, stub_g1_from_compressed)]
#[kani::stub(bls12_381::G1Affine::from_compressed_unchecked, stub_g1_unchecked)]
#[kani::stub(bls12_381::G1Affine::from_uncompressed, stub_g1_unc96)]
#[kani::stub(bls12_381::G1Affine::from_uncompressed_unchecked, stub_g1_unc96)]
fn g1_codec_validates() {
    let bytes: [u8; 48] = kani::any();
    let r = <bls12_381::G1Affine as SerializeElement>::deserialize(BytesDe { bytes: &bytes });
    unsafe {
        assert!(UNCHECKED_CALLS == 0);
        assert!(VALIDATING_CALLS == 1);
        assert!(SEEN48 == bytes);
        assert!(r.is_ok() == ACCEPT);
    }
}

/// C16: a short atom is an error, never a panic, and reaches no decoder
#[kani::proof]
#[kani::unwind(50)]
#[kani::stub(bls12_381::G1Affine::from_compressed, stub_g1_from_compressed)]
#[kani::stub(bls12_381::G1Affine::from_compressed_unchecked, stub_g1_unchecked)]
fn g1_codec_short_input() {
    let bytes: [u8; 48] = kani::any();
    let n: usize = kani::any();
    kani::assume(n < 48);
    let r2 = <bls12_381::G1Affine as SerializeElement>::deserialize(BytesDe { bytes: &bytes[..n] });
    assert!(r2.is_err());
    unsafe { assert!(VALIDATING_CALLS == 0 && UNCHECKED_CALLS == 0); }
}

#[kani::proof]
#[kani::unwind(98)]
#[kani::stub(bls12_381::G2Affine::from_compressed, stub_g2_from_compressed)]
#[kani::stub(bls12_381::G2Affine::from_compressed_unchecked, stub_g2_unchecked)]
#[kani::stub(bls12_381::G2Affine::from_uncompressed, stub_g2_unc192)]
#[kani::stub(bls12_381::G2Affine::from_uncompressed_unchecked, stub_g2_unc192)]
fn g2_codec_validates() {
    let bytes: [u8; 96] = kani::any();
    let r = <bls12_381::G2Affine as SerializeElement>::deserialize(BytesDe { bytes: &bytes });
    unsafe {
        assert!(UNCHECKED_CALLS == 0);
        assert!(VALIDATING_CALLS == 1);
        assert!(SEEN96 == bytes);
        assert!(r.is_ok() == ACCEPT);
    }
}

#[kani::proof]
#[kani::unwind(34)]
#[kani::stub(bls12_381::Scalar::from_bytes, stub_scalar_from_bytes)]
#[kani::stub(bls12_381::Scalar::from_bytes_wide, stub_scalar_wide)]
#[kani::stub(bls12_381::Scalar::from_raw, stub_scalar_raw)]
fn scalar_codec_validates() {
    let bytes: [u8; 32] = kani::any();
    let r = <bls12_381::Scalar as SerializeElement>::deserialize(BytesDe { bytes: &bytes });
    unsafe {
        assert!(UNCHECKED_CALLS == 0);
        assert!(VALIDATING_CALLS == 1);
        assert!(SEEN32 == bytes);
        assert!(r.is_ok() == ACCEPT);
    }
}

/// C16: the big boxed array codec (used for the 128 digit signatures) returns a value or an error for any number of
/// elements a self-describing format may present; Ok only when exactly N elements are present.
#[kani::proof]
#[kani::unwind(6)]
#[kani::stub(alloc::fmt::format, stub_format)]
fn big_boxed_array_total_n2() {
    let count: usize = kani::any();
    kani::assume(count <= 4);
    let r: Result<Box<[u8; 2]>, HErr> = crate::serde::big_boxed_array::deserialize::<u8, SeqDe, 2>(SeqDe { count, hint: any_hint() });
    if r.is_ok() { assert!(count >= 2); }
    if count < 2 { assert!(r.is_err()); }
}

// the projective-form codecs (every Commitment<G> field) go through the same validating decoders
#[kani::proof]
#[kani::unwind(50)]
#[kani::stub(bls12_381::G1Affine::from_compressed, stub_g1_from_compressed)]
#[kani::stub(bls12_381::G1Affine::from_compressed_unchecked, stub_g1_unchecked)]
#[kani::stub(bls12_381::G1Affine::from_uncompressed, stub_g1_unc96)]
#[kani::stub(bls12_381::G1Affine::from_uncompressed_unchecked, stub_g1_unc96)]
fn g1_projective_codec_validates() {
    let bytes: [u8; 48] = kani::any();
    let r = <bls12_381::G1Projective as SerializeElement>::deserialize(BytesDe { bytes: &bytes });
    unsafe {
        assert!(UNCHECKED_CALLS == 0);
        assert!(VALIDATING_CALLS == 1);
        assert!(SEEN48 == bytes);
        assert!(r.is_ok() == ACCEPT);
    }
}

#[kani::proof]
#[kani::unwind(98)]
#[kani::stub(bls12_381::G2Affine::from_compressed, stub_g2_from_compressed)]
#[kani::stub(bls12_381::G2Affine::from_compressed_unchecked, stub_g2_unchecked)]
#[kani::stub(bls12_381::G2Affine::from_uncompressed, stub_g2_unc192)]
#[kani::stub(bls12_381::G2Affine::from_uncompressed_unchecked, stub_g2_unc192)]
fn g2_projective_codec_validates() {
    let bytes: [u8; 96] = kani::any();
    let r = <bls12_381::G2Projective as SerializeElement>::deserialize(BytesDe { bytes: &bytes });
    unsafe {
        assert!(UNCHECKED_CALLS == 0);
        assert!(VALIDATING_CALLS == 1);
        assert!(SEEN96 == bytes);
        assert!(r.is_ok() == ACCEPT);
    }
}
