// Injected (cfg(kani)) at the end of zkchannels-crypto/src/pointcheval_sanders.rs of the scratch copy.
// C19 stand-in for the statements of SecretKey::new that Verus cannot take (a closure capturing `&mut rng`): the
// statements before `let x1` are sliced VERBATIM from the real function on every run into `vx_kani_sk_scalars`
// (bin/kanilib.py), so that no group arithmetic is in the path.  The tail of Scalar::random is replaced by a stub that
// yields, at the solver's choice, up to 3 zero scalars anywhere in the stream (zero windows of every offset and width <= 3)
// and arbitrary non-zero scalars otherwise.  Obligation: every secret scalar is non-zero.
// Bound: tuple length N in {1, 2}, at most 3 zero draws in total (loop bound 6, unwinding assertions on).
use super::*;
use rand::{CryptoRng, RngCore};

struct KRng;
impl RngCore for KRng {
    fn next_u32(&mut self) -> u32 { kani::any() }
    fn next_u64(&mut self) -> u64 { kani::any() }
    fn fill_bytes(&mut self, _dest: &mut [u8]) {}
    fn try_fill_bytes(&mut self, dest: &mut [u8]) -> Result<(), rand::Error> { self.fill_bytes(dest); Ok(()) }
}
impl CryptoRng for KRng {}

static mut ZEROS_LEFT: u32 = 0;
static mut DRAWS: u32 = 0;
fn stub_wide_zero_windows(_b: &[u8; 64]) -> Scalar {
    unsafe {
        DRAWS += 1;
        if ZEROS_LEFT > 0 && kani::any() {
            ZEROS_LEFT -= 1;
            return Scalar::zero();
        }
        let l: [u64; 4] = kani::any();
        kani::assume(l[0] != 0 || l[1] != 0 || l[2] != 0 || l[3] != 0);
        core::mem::transmute::<[u64; 4], Scalar>(l)
    }
}

macro_rules! sk_harness {
    ($name:ident, $n:literal) => {
        #[kani::proof]
        #[kani::unwind(7)]
        #[kani::stub(bls12_381::Scalar::from_bytes_wide, stub_wide_zero_windows)]
        fn $name() {
            unsafe { ZEROS_LEFT = 3; }
            let (x, ys) = vx_kani_sk_scalars::<$n>(&mut KRng, &G1Projective::generator());
            assert!(!bool::from(x.is_zero()));
            assert!(ys.len() == $n);
            for y in ys.iter() { assert!(!bool::from(y.is_zero())); }
            unsafe { assert!(DRAWS >= 1 + $n); } // the stub, not the real sampler, was reached (vacuity guard)
        }
    };
}
sk_harness!(secret_key_scalars_nonzero_n1, 1);
sk_harness!(secret_key_scalars_nonzero_n2, 2);

// ---- recording stubs used by the range-parameter harness (kani/harness/zc_range.rs): key generation and signing are
// replaced so that RangeConstraintParameters::new is checked for WHAT it signs and WHICH key it publishes
pub(crate) static mut KP_CALLS: u32 = 0;
pub(crate) static mut SIGN_CALLS: usize = 0;
pub(crate) static mut SIGNED: [[u64; 4]; 130] = [[0; 4]; 130];
pub(crate) fn stub_keypair_new<const N: usize>(_rng: &mut impl Rng) -> KeyPair<N> {
    unsafe { KP_CALLS += 1; }
    KeyPair {
        sk: SecretKey { x: Scalar::one(), ys: Box::new([Scalar::one(); N]), x1: G1Affine::generator() },
        pk: PublicKey { g1: G1Affine::generator(), y1s: Box::new([G1Affine::generator(); N]), g2: G2Affine::generator(), x2: G2Affine::generator(), y2s: Box::new([G2Affine::generator(); N]) },
    }
}
pub(crate) fn stub_signature_new<const N: usize>(_rng: &mut impl Rng, _kp: &KeyPair<N>, msg: &Message<N>) -> Signature {
    unsafe {
        if SIGN_CALLS < 130 { SIGNED[SIGN_CALLS] = core::mem::transmute::<Scalar, [u64; 4]>(msg[0]); }
        SIGN_CALLS += 1;
    }
    Signature { sigma1: G1Affine::generator(), sigma2: G1Affine::generator() }
}
pub(crate) fn is_stub_public_key(pk: &PublicKey<1>) -> bool {
    pk.g1 == G1Affine::generator() && pk.g2 == G2Affine::generator() && pk.x2 == G2Affine::generator() && pk.y1s[0] == G1Affine::generator() && pk.y2s[0] == G2Affine::generator()
}

// ---- every secret scalar is a draw of its own (tagged RNG stub): x and the y_i are pairwise different draws
static mut NTAG: u64 = 0;
fn stub_wide_tagged(_b: &[u8; 64]) -> Scalar { unsafe { NTAG += 1; core::mem::transmute::<[u64; 4], Scalar>([NTAG, 0x7a67, 0, 0]) } }
fn tag_of(s: &Scalar) -> u64 {
    let l = unsafe { core::mem::transmute::<Scalar, [u64; 4]>(*s) };
    if l[1] == 0x7a67 && l[2] == 0 && l[3] == 0 { l[0] } else { 0 }
}
macro_rules! sk_own_draws_harness {
    ($name:ident, $n:literal) => {
        #[kani::proof]
        #[kani::unwind(7)]
        #[kani::stub(bls12_381::Scalar::from_bytes_wide, stub_wide_tagged)]
        fn $name() {
            let (x, ys) = vx_kani_sk_scalars::<$n>(&mut KRng, &G1Projective::generator());
            assert!(tag_of(&x) >= 1);
            assert!(ys.len() == $n);
            let mut i = 0;
            while i < $n {
                assert!(tag_of(&ys[i]) >= 1);
                assert!(tag_of(&ys[i]) != tag_of(&x));
                let mut j = 0;
                while j < i { assert!(tag_of(&ys[i]) != tag_of(&ys[j])); j += 1; }
                i += 1;
            }
        }
    };
}
sk_own_draws_harness!(secret_key_scalars_own_draws_n2, 2);
sk_own_draws_harness!(secret_key_scalars_own_draws_n3, 3);
