// Kani harnesses injected (under cfg(kani)) into a scratch copy of zkabacus-crypto/src/lib.rs.
// Loop-free harnesses over full-domain symbolic inputs: complete proofs over all 2^64 (2^128) inputs.
use super::*;
use crate::states::{CustomerBalance, MerchantBalance};

const MAX: u64 = i64::MAX as u64;

#[kani::proof]
fn balance_try_new_exact() {
    let v: u64 = kani::any();
    match Balance::try_new(v) {
        Ok(b) => assert!(v <= MAX && b.0 == v),
        Err(Error::AmountTooLarge(x)) => assert!(v > MAX && x == v),
        Err(_) => assert!(false),
    }
    match CustomerBalance::try_new(v) {
        Ok(b) => assert!(v <= MAX && b.into_inner() == v),
        Err(Error::AmountTooLarge(x)) => assert!(v > MAX && x == v),
        Err(_) => assert!(false),
    }
    match MerchantBalance::try_new(v) {
        Ok(b) => assert!(v <= MAX && b.into_inner() == v),
        Err(Error::AmountTooLarge(x)) => assert!(v > MAX && x == v),
        Err(_) => assert!(false),
    }
}

#[kani::proof]
fn amount_constructors_exact() {
    let v: u64 = kani::any();
    match PaymentAmount::pay_merchant(v) {
        Ok(a) => assert!(v <= MAX && a.to_i64() as i128 == v as i128),
        Err(Error::AmountTooLarge(x)) => assert!(v > MAX && x == v),
        Err(_) => assert!(false),
    }
    match PaymentAmount::pay_customer(v) {
        Ok(a) => assert!(v <= MAX && a.to_i64() as i128 == -(v as i128)),
        Err(Error::AmountTooLarge(x)) => assert!(v > MAX && x == v),
        Err(_) => assert!(false),
    }
    assert!(PaymentAmount::zero().to_i64() == 0);
}

#[kani::proof]
fn balance_apply_exact() {
    let b: u64 = kani::any();
    kani::assume(b <= MAX); // type invariant of a balance
    let a: i64 = kani::any();
    let amt = PaymentAmount(a);
    let cust = CustomerBalance::try_new(b).unwrap();
    let merch = MerchantBalance::try_new(b).unwrap();
    let want_c = b as i128 - a as i128;
    match states::test_apply_customer(cust, amt) {
        Ok(n) => assert!(0 <= want_c && want_c <= MAX as i128 && n.into_inner() as i128 == want_c),
        Err(Error::InsufficientFunds) => assert!(want_c < 0),
        Err(Error::AmountTooLarge(_)) => assert!(want_c > MAX as i128),
    }
    let want_m = b as i128 + a as i128;
    match states::test_apply_merchant(merch, amt) {
        Ok(n) => assert!(0 <= want_m && want_m <= MAX as i128 && n.into_inner() as i128 == want_m),
        Err(Error::InsufficientFunds) => assert!(want_m < 0),
        Err(Error::AmountTooLarge(_)) => assert!(want_m > MAX as i128),
    }
}

#[kani::proof]
fn balance_try_add_exact() {
    let a: u64 = kani::any();
    let b: u64 = kani::any();
    kani::assume(a <= MAX && b <= MAX);
    let m = MerchantBalance::try_new(a).unwrap();
    let c = CustomerBalance::try_new(b).unwrap();
    let want = a as u128 + b as u128;
    match m.try_add(c) {
        Ok(s) => assert!(want <= MAX as u128 && s.into_inner() as u128 == want),
        Err(Error::AmountTooLarge(_)) => assert!(want > MAX as u128),
        Err(_) => assert!(false),
    }
}

/// C17: the scalar encoding is total on every amount, including every amount decodable from the wire.
#[kani::proof]
fn amount_to_scalar_total() {
    let a: i64 = kani::any();
    let _ = PaymentAmount(a).to_scalar();
}

/// C17: the encoding of a balance is total.
#[kani::proof]
fn balance_to_scalar_total() {
    let b: u64 = kani::any();
    let _ = Balance(b).to_scalar();
}

/// C15: no decoded balance is above 2^63-1 (real serde derive + real bincode reader).
#[cfg(feature = "bincode")]
#[kani::proof]
#[kani::unwind(10)]
fn balance_decode_invariant() {
    let bytes: [u8; 8] = kani::any();
    if let Ok(b) = bincode::deserialize::<CustomerBalance>(&bytes) {
        assert!(b.into_inner() <= MAX);
    }
    if let Ok(b) = bincode::deserialize::<MerchantBalance>(&bytes) {
        assert!(b.into_inner() <= MAX);
    }
}
