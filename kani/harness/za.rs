// Kani harnesses injected (under cfg(kani)) into a scratch copy of zkabacus-crypto/src/lib.rs.
// Loop-free harnesses over full-domain symbolic inputs: complete proofs over all 2^64 (2^128) inputs.
use super::*;
use crate::states::{CustomerBalance, MerchantBalance};

const MAX: u64 = i64::MAX as u64;

#[kani::proof]
fn balance_try_new_exact() {
    let v: u64 = kani::any();
    match Balance::try_new(v) {
        Ok(b) => assert!(v <= MAX && b.0 == v),
        Err(Error::AmountTooLarge(x)) => assert!(v > MAX && x == v),
        Err(_) => assert!(false),
    }
    match CustomerBalance::try_new(v) {
        Ok(b) => assert!(v <= MAX && b.into_inner() == v),
        Err(Error::AmountTooLarge(x)) => assert!(v > MAX && x == v),
        Err(_) => assert!(false),
    }
    match MerchantBalance::try_new(v) {
        Ok(b) => assert!(v <= MAX && b.into_inner() == v),
        Err(Error::AmountTooLarge(x)) => assert!(v > MAX && x == v),
        Err(_) => assert!(false),
    }
}

#[kani::proof]
fn amount_constructors_exact() {
    let v: u64 = kani::any();
    match PaymentAmount::pay_merchant(v) {
        Ok(a) => assert!(v <= MAX && a.to_i64() as i128 == v as i128),
        Err(Error::AmountTooLarge(x)) => assert!(v > MAX && x == v),
        Err(_) => assert!(false),
    }
    match PaymentAmount::pay_customer(v) {
        Ok(a) => assert!(v <= MAX && a.to_i64() as i128 == -(v as i128)),
        Err(Error::AmountTooLarge(x)) => assert!(v > MAX && x == v),
        Err(_) => assert!(false),
    }
    assert!(PaymentAmount::zero().to_i64() == 0);
}

#[kani::proof]
fn balance_apply_exact() {
    let b: u64 = kani::any();
    kani::assume(b <= MAX); // type invariant of a balance
    let a: i64 = kani::any();
    let amt = PaymentAmount(a);
    let cust = CustomerBalance::try_new(b).unwrap();
    let merch = MerchantBalance::try_new(b).unwrap();
    let want_c = b as i128 - a as i128;
    match states::test_apply_customer(cust, amt) {
        Ok(n) => assert!(0 <= want_c && want_c <= MAX as i128 && n.into_inner() as i128 == want_c),
        Err(Error::InsufficientFunds) => assert!(want_c < 0),
        Err(Error::AmountTooLarge(_)) => assert!(want_c > MAX as i128),
    }
    let want_m = b as i128 + a as i128;
    match states::test_apply_merchant(merch, amt) {
        Ok(n) => assert!(0 <= want_m && want_m <= MAX as i128 && n.into_inner() as i128 == want_m),
        Err(Error::InsufficientFunds) => assert!(want_m < 0),
        Err(Error::AmountTooLarge(_)) => assert!(want_m > MAX as i128),
    }
}

#[kani::proof]
fn balance_try_add_exact() {
    let a: u64 = kani::any();
    let b: u64 = kani::any();
    kani::assume(a <= MAX && b <= MAX);
    let m = MerchantBalance::try_new(a).unwrap();
    let c = CustomerBalance::try_new(b).unwrap();
    let want = a as u128 + b as u128;
    match m.try_add(c) {
        Ok(s) => assert!(want <= MAX as u128 && s.into_inner() as u128 == want),
        Err(Error::AmountTooLarge(_)) => assert!(want > MAX as u128),
        Err(_) => assert!(false),
    }
}

/// C17: the scalar encoding is total on every amount, including every amount decodable from the wire.
#[kani::proof]
fn amount_to_scalar_total() {
    let a: i64 = kani::any();
    let _ = PaymentAmount(a).to_scalar();
}

/// C17: the encoding of a balance is total.
#[kani::proof]
fn balance_to_scalar_total() {
    let b: u64 = kani::any();
    let _ = Balance(b).to_scalar();
}

/// C15: no decoded balance is above 2^63-1.  The REAL derived Deserialize impls of CustomerBalance /
/// MerchantBalance / Balance are driven by a minimal deserializer that hands them an arbitrary u64
/// (what every binary format does with the 8 bytes of the wire form); the error type ignores messages
/// so that no string formatting is in the path.
mod u64de {
    use ::serde::de::{self, Deserializer, Visitor};
    use ::serde::forward_to_deserialize_any;
    #[derive(Debug)]
    pub struct HErr;
    impl std::fmt::Display for HErr {
        fn fmt(&self, _f: &mut std::fmt::Formatter<'_>) -> std::fmt::Result { Ok(()) }
    }
    impl std::error::Error for HErr {}
    impl de::Error for HErr {
        fn custom<T: std::fmt::Display>(_msg: T) -> Self { HErr }
    }
    pub struct U64De(pub u64);
    impl<'de> Deserializer<'de> for U64De {
        type Error = HErr;
        fn deserialize_any<V: Visitor<'de>>(self, v: V) -> Result<V::Value, HErr> { v.visit_u64(self.0) }
        fn deserialize_newtype_struct<V: Visitor<'de>>(self, _n: &'static str, v: V) -> Result<V::Value, HErr> { v.visit_newtype_struct(self) }
        forward_to_deserialize_any! { bool i8 i16 i32 i64 i128 u8 u16 u32 u64 u128 f32 f64 char str string bytes byte_buf option unit unit_struct seq tuple tuple_struct map struct enum identifier ignored_any }
    }
}

#[kani::proof]
fn balance_decode_invariant() {
    use ::serde::Deserialize;
    let v: u64 = kani::any();
    match CustomerBalance::deserialize(u64de::U64De(v)) {
        Ok(b) => assert!(v <= MAX && b.into_inner() == v),
        Err(_) => assert!(v > MAX),
    }
    match MerchantBalance::deserialize(u64de::U64De(v)) {
        Ok(b) => assert!(v <= MAX && b.into_inner() == v),
        Err(_) => assert!(v > MAX),
    }
}


/// C16 / C17: decoding a PaymentAmount from ANY 64-bit wire value never panics and is lossless (every i64, including
/// i64::MIN, is a wire value; the constructors are stricter, the wire form is not)
mod i64de {
    use ::serde::de::{Deserializer, Visitor};
    use ::serde::forward_to_deserialize_any;
    pub struct I64De(pub i64);
    impl<'de> Deserializer<'de> for I64De {
        type Error = super::u64de::HErr;
        fn deserialize_any<V: Visitor<'de>>(self, v: V) -> Result<V::Value, Self::Error> { v.visit_i64(self.0) }
        fn deserialize_newtype_struct<V: Visitor<'de>>(self, _n: &'static str, v: V) -> Result<V::Value, Self::Error> { v.visit_newtype_struct(self) }
        forward_to_deserialize_any! { bool i8 i16 i32 i64 i128 u8 u16 u32 u64 u128 f32 f64 char str string bytes byte_buf option unit unit_struct seq tuple tuple_struct map struct enum identifier ignored_any }
    }
}
#[kani::proof]
fn amount_decode_total() {
    use ::serde::Deserialize;
    let v: i64 = kani::any();
    match crate::PaymentAmount::deserialize(i64de::I64De(v)) {
        Ok(a) => { assert!(a.to_i64() == v); let _ = a.to_scalar(); }
        Err(_) => {}
    }
}

// ---- C15 / C16: the text form of a channel id.  base64 is replaced by recording stubs (its contract - decode inverts
// encode - is the assumption): `from_str` accepts exactly the strings whose decoding has 32 bytes, returns exactly those
// bytes, and returns an error (never panics) for every other decoding result, of any length up to 40.
mod chanid_text {
    use crate::states::ChannelId;
    use std::str::FromStr;
    static mut DEC_OK: bool = false;
    static mut DEC_CALLS: u32 = 0;
    static mut DEC_LEN: usize = 0;
    static mut DEC: [u8; 40] = [0; 40];
    fn stub_decode<T: AsRef<[u8]>>(_input: T) -> Result<Vec<u8>, base64::DecodeError> {
        unsafe {
            DEC_CALLS += 1;
            DEC_OK = kani::any();
            if !DEC_OK { return Err(base64::DecodeError::InvalidLength); }
            DEC_LEN = kani::any();
            kani::assume(DEC_LEN <= 40);
            DEC = kani::any();
            let mut v = Vec::with_capacity(40);
            let mut i = 0;
            while i < DEC_LEN { v.push(DEC[i]); i += 1; }
            Ok(v)
        }
    }
    #[kani::proof]
    #[kani::unwind(42)]
    #[kani::stub(base64::decode::decode, stub_decode)]
    fn channel_id_from_str_exact() {
        let r = ChannelId::from_str("any text: decoding is the stub's business");
        unsafe {
            assert!(DEC_CALLS == 1); // the recording stub, not the real decoder, was reached (vacuity guard)
            match r {
                Ok(id) => {
                    assert!(DEC_OK && DEC_LEN == 32);
                    let b = id.to_bytes();
                    let mut i = 0;
                    while i < 32 { assert!(b[i] == DEC[i]); i += 1; }
                }
                Err(_) => assert!(!DEC_OK || DEC_LEN != 32),
            }
        }
    }
}
