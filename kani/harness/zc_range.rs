// Injected (cfg(kani)) at the end of zkchannels-crypto/src/proofs/range.rs of the scratch copy, after the
// function `vx_kani_digits`, which is the verbatim prefix of generate_constraint_commitments (statements up
// to the construction of the digit proof builders) sliced out by vx-extract, followed by `Ok(digits)`.
// Bit-precise and independent of how the decomposition is written: all 2^64 inputs, loop unwound completely.
use super::*;

#[kani::proof]
#[kani::unwind(11)]
fn range_digits_exact() {
    let v: i64 = kani::any();
    match vx_kani_digits(v) {
        Err(ValueOutsideRange(x)) => assert!(v < 0 && x == v),
        Ok(d) => {
            assert!(v >= 0);
            let mut sum: u128 = 0;
            let mut pow: u128 = 1;
            let mut j = 0;
            while j < 9 {
                assert!(d[j] < 128);
                sum += (d[j] as u128) * pow;
                pow *= 128;
                j += 1;
            }
            assert!(sum == v as u128);
        }
    }
}
