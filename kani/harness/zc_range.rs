// Injected (cfg(kani)) at the end of zkchannels-crypto/src/proofs/range.rs of the scratch copy, after the
// function `vx_kani_digits`, which is the verbatim prefix of generate_constraint_commitments (statements up
// to the construction of the digit proof builders) sliced out by vx-extract, followed by `Ok(digits)`.
// Bit-precise and independent of how the decomposition is written: all 2^64 inputs, loop unwound completely.
use super::*;

#[kani::proof]
#[kani::unwind(11)]
fn range_digits_exact() {
    let v: i64 = kani::any();
    match vx_kani_digits(v) {
        Err(ValueOutsideRange(x)) => assert!(v < 0 && x == v),
        Ok(d) => {
            assert!(v >= 0);
            let mut sum: u128 = 0;
            let mut pow: u128 = 1;
            let mut j = 0;
            while j < 9 {
                assert!(d[j] < 128);
                sum += (d[j] as u128) * pow;
                pow *= 128;
                j += 1;
            }
            assert!(sum == v as u128);
        }
    }
}

/// C19 / C13: RangeConstraintParameters::new makes ONE key pair, signs exactly the digits 0, 1, ..., 127 in this order
/// with it, keeps all 128 signatures and publishes that key pair's public key.  Key generation and signing are
/// recording stubs (their own contracts are discharged elsewhere); complete for the fixed parameter u = 128.
#[kani::proof]
#[kani::unwind(131)]
#[kani::stub(crate::pointcheval_sanders::KeyPair::new, crate::pointcheval_sanders::verif_kani_ps::stub_keypair_new)]
#[kani::stub(crate::pointcheval_sanders::Signature::new, crate::pointcheval_sanders::verif_kani_ps::stub_signature_new)]
fn range_params_sign_each_digit() {
    use crate::pointcheval_sanders::verif_kani_ps as st;
    struct R;
    impl rand::RngCore for R {
        fn next_u32(&mut self) -> u32 { 0 }
        fn next_u64(&mut self) -> u64 { 0 }
        fn fill_bytes(&mut self, _d: &mut [u8]) {}
        fn try_fill_bytes(&mut self, _d: &mut [u8]) -> Result<(), rand::Error> { Ok(()) }
    }
    impl rand::CryptoRng for R {}
    let p = RangeConstraintParameters::new(&mut R);
    unsafe {
        assert!(st::KP_CALLS == 1);
        assert!(st::SIGN_CALLS == 128);
        let mut i = 0;
        while i < 128 {
            let want = core::mem::transmute::<Scalar, [u64; 4]>(Scalar::from(i as u64));
            assert!(st::SIGNED[i] == want);
            i += 1;
        }
    }
    assert!(p.digit_signatures.len() == 128);
    assert!(st::is_stub_public_key(&p.public_key));
}
